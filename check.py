#!/usr/bin/env python3
"""check.py <property id> [--tier quick|thorough]
Decides one property of /verif/properties.jsonl on /repo's current working tree (DESIGN.md)."""
import sys, os, argparse, importlib, traceback, time, json

VERIF = os.path.dirname(os.path.abspath(__file__))
sys.path.insert(0, os.path.join(VERIF, 'symex'))
sys.path.insert(0, VERIF)
import driver


def main():
    ap = argparse.ArgumentParser()
    ap.add_argument('pid')
    ap.add_argument('--tier', default=os.environ.get('VERIF_TIER', 'quick'), choices=['quick', 'thorough'])
    ap.add_argument('--keep', action='store_true', help='keep the scratch directory')
    args = ap.parse_args()
    seed = int(os.environ.get('VERIF_SEED', '0') or 0)
    pid = args.pid.upper()
    ctx = driver.Ctx(pid, args.tier, seed)
    rc = 0
    try:
        mod = importlib.import_module('props.' + pid.lower())
        mod.run(ctx)
        if ctx.violations:
            rc = 1
        errs = [r for r in ctx.results if r.get('error')]
        obs = [o for r in ctx.results for o in r.get('obligations', [])]
        n_ok = sum(1 for o in obs if o.get('status') == 'discharged')
        driver.log('%s tier=%s: %d harness cases, %d obligations, %d discharged, %d violations, %d engine errors, %d notes, %.1fs'
                   % (pid, args.tier, len(ctx.results), len(obs), n_ok, len(ctx.violations), len(errs), len(ctx.notes),
                      time.time() - ctx.t0))
        slow = sorted(ctx.results, key=lambda r: -(r.get('total_s') or 0))[:4]
        driver.log('  slowest cases:', [(r.get('harness'), r.get('forks'), r.get('symex_s'), r.get('total_s')) for r in slow])
        shown = set()
        for n in ctx.notes:
            k = n[:60]
            if k in shown or len(shown) > 25:
                continue
            shown.add(k)
            driver.log('  note:', n[:400])
    except Exception:
        traceback.print_exc()
        driver.log('CHECK-ERROR (not a violation): the check itself failed')
        try:
            ctx.notes.append('CHECK-ERROR ' + traceback.format_exc()[-1500:])
            if not os.path.exists(os.path.join(VERIF, 'evidence', pid + '.json')):
                driver.write_evidence(ctx, 'model_checking', 'check crashed before completing', {}, [])
        except Exception:
            pass
        rc = 2
    finally:
        if not args.keep:
            ctx.cleanup()
    sys.exit(rc)


if __name__ == '__main__':
    main()
