//go:build verif

package gnmi

import (
	"context"
	"fmt"
	"os"

	configapi "github.com/onosproject/onos-api/go/onos/config/v2"
	"github.com/onosproject/onos-config/internal/verifrt"
	proposalctl "github.com/onosproject/onos-config/pkg/controller/v2/proposal"
	"github.com/onosproject/onos-config/pkg/pluginregistry"
	cfgstore "github.com/onosproject/onos-config/pkg/store/v2/configuration"
	proposalstore "github.com/onosproject/onos-config/pkg/store/v2/proposal"
	"github.com/onosproject/onos-lib-go/pkg/controller"
	"github.com/onosproject/onos-lib-go/pkg/errors"
	"github.com/openconfig/gnmi/proto/gnmi"
)

// ---- proposal store of the C06 data-path harness: the proposals of target t1 by log index

const c06MaxProps = 8

var c06Props [c06MaxProps]*configapi.Proposal

type c06PropStore struct{ proposalstore.Store }

func (s *c06PropStore) Get(ctx context.Context, id configapi.ProposalID) (*configapi.Proposal, error) {
	for i := 1; i < c06MaxProps; i++ {
		if c06Props[i] != nil && c06Props[i].ID == id {
			p := *c06Props[i]
			return &p, nil
		}
	}
	return nil, errors.NewNotFound("proposal not found")
}

func (s *c06PropStore) UpdateStatus(ctx context.Context, p *configapi.Proposal) error {
	c := *p
	c06Props[int(p.TransactionIndex)] = &c
	return nil
}

// the model plugin accepts every document
type c06Plugin struct{ c03Plugin }

func (p *c06Plugin) Validate(ctx context.Context, jsonData []byte) error {
	c06Doc, c06DocSeen = verifrt.JSONValue(jsonData), true
	return nil
}

// the document the model plugin was last asked to validate (C05: leaf for leaf the configuration that becomes readable)
var (
	c06Doc     interface{}
	c06DocSeen bool
)

func c06Child(node interface{}, name string) (interface{}, bool) {
	m, ok := node.(map[string]interface{})
	if !ok {
		return nil, false
	}
	c, ok := m[name]
	return c, ok
}

// c06DocLeaf: the string leaf of universe leaf j in the document (containers a, a/b; list l keyed by k)
func c06DocLeaf(doc interface{}, j int) (string, bool) {
	var v interface{}
	var ok bool
	switch j {
	case 0:
		a, okA := c06Child(doc, "a")
		b, okB := c06Child(a, "b")
		v, ok = c06Child(b, "c")
		ok = ok && okA && okB
	case 1:
		a, okA := c06Child(doc, "a")
		v, ok = c06Child(a, "bc")
		ok = ok && okA
	case 2:
		a, okA := c06Child(doc, "a")
		v, ok = c06Child(a, "b-x")
		ok = ok && okA
	default:
		key := "1"
		if j == 4 {
			key = "10"
		}
		l, okL := c06Child(doc, "l")
		sl, isList := l.([]interface{})
		if !okL || !isList {
			return "", false
		}
		for _, e := range sl {
			k, okK := c06Child(e, "k")
			ks, isStr := k.(string)
			if okK && isStr && ks == key {
				v, ok = c06Child(e, "x")
			}
		}
	}
	str, isStr := v.(string)
	return str, ok && isStr
}

// c06CheckDoc: the validated document holds exactly the leaves the reference state machine holds after the change
func c06CheckDoc(tag string, live *[cfgstore.VLeaves]bool, val *[cfgstore.VLeaves]uint8) {
	if verifrt.Param("docs") != 1 {
		return // the document is C05's subject: asserted when the harness runs for C05
	}
	verifrt.Assert(c06DocSeen, tag+"plugin-was-consulted")
	if !c06DocSeen {
		return
	}
	if !verifrt.Symbolic() && os.Getenv("VERIF_DUMP") != "" {
		fmt.Printf("VERIF-DUMP %s doc=%v live=%v val=%v\n", tag, c06Doc, *live, *val)
	}
	for j := 0; j < cfgstore.VLeaves; j++ {
		str, ok := c06DocLeaf(c06Doc, j)
		verifrt.Assert(ok == live[j], tag+"validated-document-holds-exactly-the-leaves-that-become-readable")
		if ok && live[j] {
			want := cfgstore.VValue(val[j])
			verifrt.Assert(str == string(want.Bytes), tag+"validated-document-holds-the-values-that-become-readable")
		}
	}
}

type c06Registry struct{ pluginregistry.PluginRegistry }

func (r *c06Registry) GetPlugin(model configapi.TargetType, version configapi.TargetVersion) (pluginregistry.ModelPlugin, bool) {
	return &c06Plugin{}, model == "ty" && version == "1"
}

// c06Run drives proposal idx through the real Initialize, Validate, Commit and Apply phases
func c06Run(r *proposalctl.Reconciler, idx int, wantValid bool) bool {
	id := controller.NewID(c06Props[idx].ID)
	c06Props[idx].Status.Phases.Initialize = &configapi.ProposalInitializePhase{}
	for k := 0; k < 4; k++ { // create/link/status write/INITIALIZED
		_, err := r.Reconcile(id)
		verifrt.Assert(err == nil, "initialize-step-succeeds")
	}
	verifrt.Assert(c06Props[idx].Status.Phases.Initialize.State == configapi.ProposalInitializePhase_INITIALIZED, "initialize-completes")
	c06Props[idx].Status.Phases.Validate = &configapi.ProposalValidatePhase{}
	_, err := r.Reconcile(id)
	valid := c06Props[idx].Status.Phases.Validate.State == configapi.ProposalValidatePhase_VALIDATED
	verifrt.Assert(err == nil && valid == wantValid, "validate-verdict")
	if !valid {
		return false
	}
	c06Props[idx].Status.Phases.Commit = &configapi.ProposalCommitPhase{}
	_, err = r.Reconcile(id)
	verifrt.Assert(err == nil && c06Props[idx].Status.Phases.Commit.State == configapi.ProposalCommitPhase_COMMITTED, "commit-completes")
	if !c06Pipelined {
		c06Apply(r, idx)
	}
	return true
}

// c06Pipelined: the changes of the history are applied to the device only after ALL of them were validated and committed
// (validation of change N waits for the commit of N-1, not for its apply: a legal interleaving when the device is slow)
var c06Pipelined bool

func c06Apply(r *proposalctl.Reconciler, idx int) {
	c06Props[idx].Status.Phases.Apply = &configapi.ProposalApplyPhase{}
	_, err := r.Reconcile(controller.NewID(c06Props[idx].ID))
	verifrt.Assert(err == nil && c06Props[idx].Status.Phases.Apply.State == configapi.ProposalApplyPhase_APPLIED, "apply-completes")
}

// VerifC06History: a history of Sets (operations of the C03 universe; the last one may also be a request with two
// operations) is committed and applied through the real proposal phases incl. the real Validate phase that captures the
// rollback values; then the LAST change is rolled back by a real rollback proposal. Get and the device must show
// exactly the state before that change; a second rollback of the same index is refused and alters nothing.
func VerifC06History() {
	ctx := context.Background()
	store := cfgstore.NewStoreForVerif()
	cfgstore.VConfig = &configapi.Configuration{ID: cfgstore.VConfigID, TargetID: "t1"}
	cfgstore.VConfig.Revision = 1
	cfgstore.VConfig.Status.State = configapi.ConfigurationStatus_SYNCHRONIZED
	cfgstore.VConfig.Status.Mastership.Master = "conn-1"
	cfgstore.VConfig.Status.Mastership.Term = 1
	cfgstore.VConfig.Status.Applied.Mastership.Master = "conn-1"
	cfgstore.VConfig.Status.Applied.Mastership.Term = 1
	cfgstore.VConfigVer = 1
	srv := &Server{topo: &vTopo{}, pluginRegistry: &c03Registry{}, transactions: &vTxStore{}, configurations: store}
	vNEvents = 1
	vStates[0] = int32(configapi.TransactionStatus_APPLIED)
	pr := proposalctl.NewReconcilerForVerif(&c04Topo{}, &c04Conns{}, &c06PropStore{}, store, &c06Registry{})
	h := verifrt.Param("sets")
	c06Pipelined = h >= 2 && verifrt.Param("chain") != 1 && verifrt.Fork("pipelined", 2) == 1
	var snapLive [cfgstore.VLeaves]bool
	var snapVal [cfgstore.VLeaves]uint8
	for s := 1; s <= h; s++ {
		if s == h {
			snapLive, snapVal = refLive, refVal
		}
		nops := cfgstore.VNP + cfgstore.VLeaves
		if s == h {
			nops++ // the change to be rolled back may also be the request {delete /a, update /a/b/c}
		}
		op := verifrt.Fork("op"+"0123456789"[s:s+1], nops)
		combined := op == cfgstore.VNP+cfgstore.VLeaves
		if combined {
			op = cfgstore.VNP + 0
		}
		node, del := op, true
		if op >= cfgstore.VNP {
			node, del = op-cfgstore.VNP, false
		}
		req := &gnmi.SetRequest{Prefix: &gnmi.Path{Target: "t1"}}
		tag := uint8(s)
		if del {
			req.Delete = []*gnmi.Path{{Elem: c03Elems(node)}}
		} else {
			tv := cfgstore.VValue(tag)
			req.Update = []*gnmi.Update{{Path: &gnmi.Path{Elem: c03Elems(node)}, Val: &gnmi.TypedValue{Value: &gnmi.TypedValue_StringVal{StringVal: string(tv.Bytes)}}}}
		}
		if combined {
			req.Delete = []*gnmi.Path{{Elem: c03Elems(6)}}
			for j := 0; j < cfgstore.VLeaves; j++ {
				if cfgstore.VCovers(6, j) {
					refLive[j] = false
				}
			}
		}
		vTx = nil
		_, err := srv.Set(ctx, req)
		verifrt.Assert(err == nil && vTx != nil, "set-accepted")
		if err != nil || vTx == nil {
			return
		}
		stamped := make(map[string]*configapi.PathValue)
		for p, v := range vTx.GetChange().Values["t1"].Values {
			v.Index = configapi.Index(s)
			stamped[p] = v
		}
		c06Props[s] = &configapi.Proposal{ID: proposalstore.NewID("t1", configapi.Index(s)), TargetID: "t1", TransactionIndex: configapi.Index(s),
			Details: &configapi.Proposal_Change{Change: &configapi.ChangeProposal{Values: stamped}}}
		c06Props[s].TargetType, c06Props[s].TargetVersion = "ty", "1"
		c06DocSeen = false
		if !c06Run(pr, s, true) {
			return
		}
		for j := 0; j < cfgstore.VLeaves; j++ {
			if del && cfgstore.VCovers(node, j) {
				refLive[j] = false
			}
			if !del && node == j {
				refLive[j], refVal[j] = true, tag
			}
		}
		c06CheckDoc("change-", &refLive, &refVal)
	}
	if c06Pipelined {
		for s := 1; s <= h; s++ {
			c06Apply(pr, s)
		}
		c06Pipelined = false
	}
	verifrt.Cover("history-applied")
	// ---- roll back the last change (log entry h+1)
	rb := h + 1
	c06Props[rb] = &configapi.Proposal{ID: proposalstore.NewID("t1", configapi.Index(rb)), TargetID: "t1", TransactionIndex: configapi.Index(rb),
		Details: &configapi.Proposal_Rollback{Rollback: &configapi.RollbackProposal{RollbackIndex: configapi.Index(h)}}}
	c06Props[rb].TargetType, c06Props[rb].TargetVersion = "ty", "1"
	c06DocSeen = false
	if !c06Run(pr, rb, true) {
		return
	}
	verifrt.Cover("rolled-back")
	c06CheckDoc("rollback-", &snapLive, &snapVal)
	c06Check(ctx, srv, &snapLive, &snapVal, "after-rollback-")
	// ---- chain: one more change, its rollback, and then the rollback of the change BEFORE the first rolled-back one (the
	// most recent change of the target again, once everything after it was rolled back): each is accepted and exact
	if verifrt.Param("chain") == 1 && h == 2 {
		afterFirst, afterFirstVal := snapLive, snapVal
		c := rb + 1
		node := 3 * verifrt.Fork("chain.leaf", 2) // leaf /a/b/c or /l[k=1]/x
		tv := cfgstore.VValue(uint8(c))
		req := &gnmi.SetRequest{Prefix: &gnmi.Path{Target: "t1"}, Update: []*gnmi.Update{{Path: &gnmi.Path{Elem: c03Elems(node)},
			Val: &gnmi.TypedValue{Value: &gnmi.TypedValue_StringVal{StringVal: string(tv.Bytes)}}}}}
		vTx = nil
		_, err := srv.Set(ctx, req)
		verifrt.Assert(err == nil && vTx != nil, "chain-set-accepted")
		if err != nil || vTx == nil {
			return
		}
		stamped := make(map[string]*configapi.PathValue)
		for p, v := range vTx.GetChange().Values["t1"].Values {
			v.Index = configapi.Index(c)
			stamped[p] = v
		}
		c06Props[c] = &configapi.Proposal{ID: proposalstore.NewID("t1", configapi.Index(c)), TargetID: "t1", TransactionIndex: configapi.Index(c),
			Details: &configapi.Proposal_Change{Change: &configapi.ChangeProposal{Values: stamped}}}
		c06Props[c].TargetType, c06Props[c].TargetVersion = "ty", "1"
		if !c06Run(pr, c, true) {
			return
		}
		// roll it back
		c06Props[c+1] = &configapi.Proposal{ID: proposalstore.NewID("t1", configapi.Index(c+1)), TargetID: "t1", TransactionIndex: configapi.Index(c + 1),
			Details: &configapi.Proposal_Rollback{Rollback: &configapi.RollbackProposal{RollbackIndex: configapi.Index(c)}}}
		c06Props[c+1].TargetType, c06Props[c+1].TargetVersion = "ty", "1"
		if !c06Run(pr, c+1, true) {
			return
		}
		c06Check(ctx, srv, &afterFirst, &afterFirstVal, "chain-after-second-rollback-")
		// roll back change 1: it is the most recent change of the target again
		c06Props[c+2] = &configapi.Proposal{ID: proposalstore.NewID("t1", configapi.Index(c+2)), TargetID: "t1", TransactionIndex: configapi.Index(c + 2),
			Details: &configapi.Proposal_Rollback{Rollback: &configapi.RollbackProposal{RollbackIndex: 1}}}
		c06Props[c+2].TargetType, c06Props[c+2].TargetVersion = "ty", "1"
		if !c06Run(pr, c+2, true) {
			return
		}
		var none [cfgstore.VLeaves]bool
		var noneVal [cfgstore.VLeaves]uint8
		verifrt.Cover("chain-rolled-back-to-the-start")
		c06Check(ctx, srv, &none, &noneVal, "chain-after-rolling-back-the-first-change-")
		return
	}
	// ---- the same rollback once more: refused (the change is no longer the latest one), nothing altered
	if verifrt.Param("again") == 1 {
		rb2 := h + 2
		c06Props[rb2] = &configapi.Proposal{ID: proposalstore.NewID("t1", configapi.Index(rb2)), TargetID: "t1", TransactionIndex: configapi.Index(rb2),
			Details: &configapi.Proposal_Rollback{Rollback: &configapi.RollbackProposal{RollbackIndex: configapi.Index(h)}}}
		c06Props[rb2].TargetType, c06Props[rb2].TargetVersion = "ty", "1"
		c06Run(pr, rb2, false)
		verifrt.Cover("second-rollback-refused")
		c06Check(ctx, srv, &snapLive, &snapVal, "after-refused-rollback-")
	}
}

func c06Check(ctx context.Context, srv *Server, live *[cfgstore.VLeaves]bool, val *[cfgstore.VLeaves]uint8, tag string) {
	// Get of every leaf (queries 3 = /a and 5 = /l[k=*]/x cover the five leaves)
	for _, q := range []int{3, 5} {
		resp, err := srv.Get(ctx, &gnmi.GetRequest{Prefix: &gnmi.Path{Target: "t1"}, Path: []*gnmi.Path{{Elem: c03Query(q)}}, Encoding: gnmi.Encoding_PROTO})
		verifrt.Assert(err == nil && resp != nil && len(resp.Notification) == 1, tag+"get-answers")
		if err != nil || resp == nil || len(resp.Notification) != 1 {
			return
		}
		for j := 0; j < cfgstore.VLeaves; j++ {
			if !c03Matches(q, j) {
				continue
			}
			n, valOK := 0, true
			for _, u := range resp.Notification[0].Update {
				if u.Val != nil && u.Path != nil && verifSamePath(u.Path.Elem, c03Elems(j)) {
					n++
					want := cfgstore.VValue(val[j])
					valOK = valOK && u.Val.GetStringVal() == string(want.Bytes)
				}
			}
			want := 0
			if live[j] {
				want = 1
			}
			verifrt.Assert(n == want, tag+"stored-configuration-is-the-state-before-the-change")
			if n == 1 && want == 1 {
				verifrt.Assert(valOK, tag+"stored-values-are-the-values-before-the-change")
			}
		}
	}
	for j := 0; j < cfgstore.VLeaves; j++ {
		verifrt.Assert(c04Dev[j] == live[j], tag+"device-holds-the-state-before-the-change")
		if c04Dev[j] && live[j] {
			want := cfgstore.VValue(val[j])
			verifrt.Assert(c04DevVal[j] == string(want.Bytes), tag+"device-values-are-the-values-before-the-change")
		}
	}
}
