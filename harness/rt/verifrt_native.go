// Package verifrt, native face: the same API as verifrt_sym.go, values come from the JSON file named by
// $VERIF_REPLAY ({"entry": "...", "inputs": {"name#k": value}}), so that the harness function that was
// executed symbolically is re-executed by the ordinary Go compiler against the real code.
package verifrt

import (
	"encoding/json"
	"fmt"
	"math"
	"os"
	"reflect"
	"strings"
	"time"
)

type replayFile struct {
	Entry  string                     `json:"entry"`
	Inputs map[string]json.RawMessage `json:"inputs"`
	Params map[string]int             `json:"params"`
}

type Result struct {
	Entry         string   `json:"entry"`
	Failed        []string `json:"failed"`
	Covers        []string `json:"covers"`
	Regions       []string `json:"regions"`
	Panic         string   `json:"panic"`
	AssumeBroken  bool     `json:"assume_broken"`
	MissingInputs []string `json:"missing_inputs"`
}

var (
	rf     replayFile
	counts = map[string]int{}
	res    Result
)

type assumeViolated struct{}

func raw(name string) (json.RawMessage, bool) {
	n := counts[name]
	counts[name] = n + 1
	full := fmt.Sprintf("%s#%d", name, n)
	v, ok := rf.Inputs[full]
	if !ok {
		res.MissingInputs = append(res.MissingInputs, full)
	}
	return v, ok
}

func num(name string) int64 {
	v, ok := raw(name)
	if !ok {
		return 0
	}
	var i int64
	if err := json.Unmarshal(v, &i); err != nil {
		var u uint64
		if err2 := json.Unmarshal(v, &u); err2 != nil {
			panic("verifrt: bad number for " + name + ": " + string(v))
		}
		return int64(u)
	}
	return i
}

func NondetInt(name string) int       { return int(num(name)) }
func NondetInt64(name string) int64   { return num(name) }
func NondetUint64(name string) uint64 { return uint64(num(name)) }
func NondetInt32(name string) int32   { return int32(num(name)) }
func NondetUint32(name string) uint32 { return uint32(num(name)) }
func NondetByte(name string) byte     { return byte(num(name)) }
func NondetBool(name string) bool {
	v, ok := raw(name)
	if !ok {
		return false
	}
	var b bool
	if err := json.Unmarshal(v, &b); err != nil {
		panic("verifrt: bad bool for " + name)
	}
	return b
}

// strings are stored as arrays of byte values
func NondetString(name string, maxLen int, alphabet string) string {
	v, ok := raw(name)
	if !ok {
		return ""
	}
	var bs []int
	if err := json.Unmarshal(v, &bs); err != nil {
		panic("verifrt: bad string for " + name)
	}
	out := make([]byte, len(bs))
	for i, b := range bs {
		out[i] = byte(b)
	}
	return string(out)
}

func NondetStringN(name string, n int, alphabet string) string {
	return NondetString(name, n, alphabet)
}

func Param(name string) int { return rf.Params[name] }

func FieldUint64(v interface{}, field string) uint64 {
	rv := reflect.ValueOf(v)
	if rv.Kind() == reflect.Ptr {
		rv = rv.Elem()
	}
	f := rv.FieldByName(field)
	if !f.IsValid() {
		panic("verifrt: FieldUint64: no field " + field)
	}
	return f.Uint()
}

func FieldString(v interface{}, path string) string {
	rv := reflect.ValueOf(v)
	for _, f := range strings.Split(path, ".") {
		if rv.Kind() == reflect.Ptr || rv.Kind() == reflect.Interface {
			rv = rv.Elem()
		}
		rv = rv.FieldByName(f)
		if !rv.IsValid() {
			panic("verifrt: FieldString: no field " + f)
		}
	}
	return rv.String()
}

func JSONValue(doc []byte) interface{} {
	var v interface{}
	if err := json.Unmarshal(doc, &v); err != nil {
		panic("verifrt: JSONValue: " + err.Error())
	}
	return v
}

func NondetBytesLen(name string, maxLen int) []byte { return make([]byte, int(num(name))) }

func NondetFloat32(name string) float32 { return math.Float32frombits(uint32(num(name))) }

func Fork(name string, n int) int { return int(num(name)) }

func SetEnv(key, value string) { _ = os.Setenv(key, value) }

func Assume(c bool) {
	if !c {
		panic(assumeViolated{})
	}
}

func Cover(label string) { res.Covers = append(res.Covers, label) }
func Region(name string, c bool) {
	if c {
		res.Regions = append(res.Regions, name)
	}
}

func Assert(c bool, label string) {
	if !c {
		res.Failed = append(res.Failed, label)
	}
}

func Symbolic() bool { return false }

// Yield gives the other goroutines time to reach their next blocking point.
func Yield() { time.Sleep(15 * time.Millisecond) }

// HavocState: see verifrt_sym.go; leaves missing from the replay file keep their zero value.
func HavocState(ptr interface{}, name string) {
	havoc(reflect.ValueOf(ptr).Elem(), name)
}

func havoc(v reflect.Value, name string) {
	switch v.Kind() {
	case reflect.Struct:
		for i := 0; i < v.NumField(); i++ {
			havoc(v.Field(i), name+"."+v.Type().Field(i).Name)
		}
	case reflect.Array:
		for i := 0; i < v.Len(); i++ {
			havoc(v.Index(i), fmt.Sprintf("%s[%d]", name, i))
		}
	case reflect.Bool:
		n := counts[name]
		counts[name] = n + 1
		if raw, ok := rf.Inputs[fmt.Sprintf("%s#%d", name, n)]; ok {
			var b bool
			if err := json.Unmarshal(raw, &b); err != nil {
				panic("verifrt: bad bool for " + name)
			}
			v.SetBool(b)
		} else {
			v.SetBool(false)
		}
	case reflect.Int, reflect.Int8, reflect.Int16, reflect.Int32, reflect.Int64:
		n := counts[name]
		counts[name] = n + 1
		var i int64
		if raw, ok := rf.Inputs[fmt.Sprintf("%s#%d", name, n)]; ok {
			if err := json.Unmarshal(raw, &i); err != nil {
				panic("verifrt: bad int for " + name)
			}
		}
		v.SetInt(i)
	case reflect.Uint, reflect.Uint8, reflect.Uint16, reflect.Uint32, reflect.Uint64:
		n := counts[name]
		counts[name] = n + 1
		var u uint64
		if raw, ok := rf.Inputs[fmt.Sprintf("%s#%d", name, n)]; ok {
			if err := json.Unmarshal(raw, &u); err != nil {
				var i int64
				if err2 := json.Unmarshal(raw, &i); err2 != nil {
					panic("verifrt: bad uint for " + name)
				}
				u = uint64(i)
			}
		}
		v.SetUint(u)
	default:
		panic("verifrt: HavocState cannot fill " + v.Kind().String() + " at " + name)
	}
}

// RunReplay executes the harness entry named in $VERIF_REPLAY and prints one line "VERIF-RESULT {json}".
func RunReplay(fns map[string]func()) {
	path := os.Getenv("VERIF_REPLAY")
	data, err := os.ReadFile(path)
	if err != nil {
		panic(err)
	}
	if err := json.Unmarshal(data, &rf); err != nil {
		panic(err)
	}
	fn, ok := fns[rf.Entry]
	if !ok {
		panic("verifrt: unknown entry " + rf.Entry)
	}
	res = Result{Entry: rf.Entry}
	func() {
		defer func() {
			if r := recover(); r != nil {
				if _, ok := r.(assumeViolated); ok {
					res.AssumeBroken = true
					return
				}
				res.Panic = fmt.Sprint(r)
				if res.Panic == "" {
					res.Panic = "panic"
				}
			}
		}()
		fn()
	}()
	out, _ := json.Marshal(res)
	fmt.Println("VERIF-RESULT " + string(out))
}
