// Package verifrt, native face: the same API as verifrt_sym.go, values come from the JSON file named by
// $VERIF_REPLAY ({"entry": "...", "inputs": {"name#k": value}}), so that the harness function that was
// executed symbolically is re-executed by the ordinary Go compiler against the real code.
package verifrt

import (
	"encoding/json"
	"fmt"
	"math"
	"os"
)

type replayFile struct {
	Entry  string                     `json:"entry"`
	Inputs map[string]json.RawMessage `json:"inputs"`
	Params map[string]int             `json:"params"`
}

type Result struct {
	Entry         string   `json:"entry"`
	Failed        []string `json:"failed"`
	Covers        []string `json:"covers"`
	Regions       []string `json:"regions"`
	Panic         string   `json:"panic"`
	AssumeBroken  bool     `json:"assume_broken"`
	MissingInputs []string `json:"missing_inputs"`
}

var (
	rf     replayFile
	counts = map[string]int{}
	res    Result
)

type assumeViolated struct{}

func raw(name string) (json.RawMessage, bool) {
	n := counts[name]
	counts[name] = n + 1
	full := fmt.Sprintf("%s#%d", name, n)
	v, ok := rf.Inputs[full]
	if !ok {
		res.MissingInputs = append(res.MissingInputs, full)
	}
	return v, ok
}

func num(name string) int64 {
	v, ok := raw(name)
	if !ok {
		return 0
	}
	var i int64
	if err := json.Unmarshal(v, &i); err != nil {
		var u uint64
		if err2 := json.Unmarshal(v, &u); err2 != nil {
			panic("verifrt: bad number for " + name + ": " + string(v))
		}
		return int64(u)
	}
	return i
}

func NondetInt(name string) int       { return int(num(name)) }
func NondetInt64(name string) int64   { return num(name) }
func NondetUint64(name string) uint64 { return uint64(num(name)) }
func NondetInt32(name string) int32   { return int32(num(name)) }
func NondetUint32(name string) uint32 { return uint32(num(name)) }
func NondetByte(name string) byte     { return byte(num(name)) }
func NondetBool(name string) bool {
	v, ok := raw(name)
	if !ok {
		return false
	}
	var b bool
	if err := json.Unmarshal(v, &b); err != nil {
		panic("verifrt: bad bool for " + name)
	}
	return b
}

// strings are stored as arrays of byte values
func NondetString(name string, maxLen int, alphabet string) string {
	v, ok := raw(name)
	if !ok {
		return ""
	}
	var bs []int
	if err := json.Unmarshal(v, &bs); err != nil {
		panic("verifrt: bad string for " + name)
	}
	out := make([]byte, len(bs))
	for i, b := range bs {
		out[i] = byte(b)
	}
	return string(out)
}

func NondetStringN(name string, n int, alphabet string) string { return NondetString(name, n, alphabet) }

func Param(name string) int { return rf.Params[name] }

func NondetFloat32(name string) float32 { return math.Float32frombits(uint32(num(name))) }

func Fork(name string, n int) int { return int(num(name)) }

func SetEnv(key, value string) { _ = os.Setenv(key, value) }

func Assume(c bool) {
	if !c {
		panic(assumeViolated{})
	}
}

func Cover(label string)         { res.Covers = append(res.Covers, label) }
func Region(name string, c bool) {
	if c {
		res.Regions = append(res.Regions, name)
	}
}

func Assert(c bool, label string) {
	if !c {
		res.Failed = append(res.Failed, label)
	}
}

func Symbolic() bool { return false }

// RunReplay executes the harness entry named in $VERIF_REPLAY and prints one line "VERIF-RESULT {json}".
func RunReplay(fns map[string]func()) {
	path := os.Getenv("VERIF_REPLAY")
	data, err := os.ReadFile(path)
	if err != nil {
		panic(err)
	}
	if err := json.Unmarshal(data, &rf); err != nil {
		panic(err)
	}
	fn, ok := fns[rf.Entry]
	if !ok {
		panic("verifrt: unknown entry " + rf.Entry)
	}
	res = Result{Entry: rf.Entry}
	func() {
		defer func() {
			if r := recover(); r != nil {
				if _, ok := r.(assumeViolated); ok {
					res.AssumeBroken = true
					return
				}
				res.Panic = fmt.Sprint(r)
				if res.Panic == "" {
					res.Panic = "panic"
				}
			}
		}()
		fn()
	}()
	out, _ := json.Marshal(res)
	fmt.Println("VERIF-RESULT " + string(out))
}
