// Package verifrt is the harness runtime. This file is the *symbolic* face: every function is
// intercepted by the gosmt engine (symex/gosmt.py), the bodies are never executed.
// The native face used for replays is verifrt_native.go (same API, values read from a JSON file).
package verifrt

func NondetInt(name string) int                                    { return 0 }
func NondetInt64(name string) int64                                { return 0 }
func NondetUint64(name string) uint64                              { return 0 }
func NondetInt32(name string) int32                                { return 0 }
func NondetUint32(name string) uint32                              { return 0 }
func NondetByte(name string) byte                                  { return 0 }
func NondetBool(name string) bool                                  { return false }
func NondetString(name string, maxLen int, alphabet string) string { return "" }
func NondetFloat32(name string) float32                            { return 0 }

// NondetStringN: a string of exactly n bytes (n concrete) over the alphabet, contents symbolic.
func NondetStringN(name string, n int, alphabet string) string { return "" }

// NondetBytesLen: a byte slice of arbitrary length <= maxLen whose contents are irrelevant (not materialised symbolically).
func NondetBytesLen(name string, maxLen int) []byte { return nil }

// JSONValue gives the Go value that a byte slice produced by encoding/json (Marshal/MarshalIndent) encodes:
// symbolically the value handed to the encoder (the encoder itself is not executed), natively json.Unmarshal.
func JSONValue(doc []byte) interface{} { return nil }

// FieldUint64 reads an (unexported) unsigned integer field of a struct value held in an interface
// (used to read the version carried by an atomix IfVersion option).
func FieldUint64(v interface{}, field string) uint64 { return 0 }

// FieldString reads an (unexported) string field; path elements are separated by dots ("filter.Key").
func FieldString(v interface{}, path string) string { return "" }

// Param is a tier-dependent bound chosen by the check driver (a concrete constant in every run).
func Param(name string) int { return 0 }

// Fork returns a value in 0..n-1; the engine enumerates all n cases (each case is a separate symbolic run).
func Fork(name string, n int) int { return 0 }

func SetEnv(key, value string) {}
func Assume(c bool)            {}
func Cover(label string)       {}

// Region names a known-finding region predicate over the harness inputs (see known_findings.json).
func Region(name string, c bool) {}

func Assert(c bool, label string) {}

// HavocState fills the value pointed to by ptr (structs / arrays / bools / integers) with fresh symbolic leaves
// named name.Field[i]... ; natively the leaves are read from the replay file under the same names.
func HavocState(ptr interface{}, name string) {}

// Yield lets every goroutine run until it blocks (engine: goroutine_park mode; natively a short sleep).
func Yield() {}

// Symbolic reports whether the harness is being executed by the engine (true) or natively (false).
func Symbolic() bool { return true }
