//go:build verif

package pluginregistry

import (
	"context"

	api "github.com/onosproject/onos-api/go/onos/config/admin"
	"github.com/onosproject/onos-config/internal/verifrt"
	"github.com/onosproject/onos-lib-go/pkg/errors"
	"google.golang.org/grpc"
)

// C05(a): the document streamed to the plugin is the whole document, whatever its size: chunks are contiguous
// from offset 0, each at most chunkSize bytes, together exactly len(jsonData) bytes; the stream is closed once and
// the plugin's verdict (or transport error) is what Validate returns.

var (
	vTotalCap  int // cap of the document slice (offsets of chunks are cap differences)
	vNextOff   int // offset expected for the next chunk
	vChunks    int
	vBadChunk  bool // a chunk that is not contiguous / too large / empty was sent
	vCloses    int
	vValid     bool
	vRecvErr   bool
	vSendErrAt int // Send call that fails (-1: none)
)

type vSender struct {
	api.ModelPluginService_ValidateConfigChunkedClient
}

func (s *vSender) Send(c *api.ValidateConfigRequestChunk) error {
	off := vTotalCap - cap(c.Json)
	if off != vNextOff || len(c.Json) > chunkSize || len(c.Json) == 0 {
		vBadChunk = true
	}
	vNextOff = off + len(c.Json)
	vChunks++
	if vSendErrAt == vChunks-1 {
		return errors.NewUnavailable("send failed")
	}
	return nil
}

func (s *vSender) CloseAndRecv() (*api.ValidateConfigResponse, error) {
	vCloses++
	if vRecvErr {
		return nil, errors.NewUnavailable("recv failed")
	}
	return &api.ValidateConfigResponse{Valid: vValid, Message: "m"}, nil
}

type vClient struct {
	api.ModelPluginServiceClient
}

func (c *vClient) ValidateConfigChunked(ctx context.Context, opts ...grpc.CallOption) (api.ModelPluginService_ValidateConfigChunkedClient, error) {
	return &vSender{}, nil
}

// VerifC05Chunking: document length symbolic in 0 .. 3*chunkSize+2
func VerifC05Chunking() {
	doc := verifrt.NondetBytesLen("doclen", 3*chunkSize+2)
	vTotalCap = cap(doc)
	vValid = verifrt.NondetBool("valid")
	vRecvErr = verifrt.NondetBool("recverr")
	vSendErrAt = verifrt.NondetInt("senderrat")
	verifrt.Assume(vSendErrAt >= -1 && vSendErrAt <= 4)
	p := &ModelPluginInfo{Client: &vClient{}}
	err := p.Validate(context.Background(), doc)
	verifrt.Cover("returned")
	verifrt.Assert(!vBadChunk, "chunks-contiguous-nonempty-at-most-chunksize")
	sendFailed := vSendErrAt >= 0 && vSendErrAt < vChunks
	if !sendFailed {
		verifrt.Cover("all-sent")
		verifrt.Assert(vNextOff == len(doc), "chunks-cover-the-whole-document")
		verifrt.Assert(vCloses == 1, "stream-closed-exactly-once")
		verifrt.Assert((err == nil) == (vValid && !vRecvErr), "verdict-is-the-plugins")
		if len(doc) > 2*chunkSize {
			verifrt.Cover("three-chunks")
			verifrt.Assert(vChunks == 3 || vChunks == 4, "chunk-count")
		}
	} else {
		verifrt.Assert(err != nil, "send-error-propagated")
	}
}
