//go:build verif

package transaction

import (
	configapi "github.com/onosproject/onos-api/go/onos/config/v3"
	"github.com/onosproject/onos-config/pkg/pluginregistry"
	"github.com/onosproject/onos-config/pkg/southbound/gnmi"
	"github.com/onosproject/onos-config/pkg/store/topo"
	configurationstore "github.com/onosproject/onos-config/pkg/store/v3/configuration"
	transactionstore "github.com/onosproject/onos-config/pkg/store/v3/transaction"
)

// NewReconcilerForVerif builds the v3 transaction Reconciler over the given stores (the fields are unexported).
func NewReconcilerForVerif(node configapi.NodeID, t transactionstore.Store, c configurationstore.Store, conns gnmi.ConnManager, tp topo.Store, p pluginregistry.PluginRegistry) *Reconciler {
	return &Reconciler{nodeID: node, transactions: t, configurations: c, conns: conns, topo: tp, plugins: p}
}
