//go:build verif

package verifv3

import "github.com/onosproject/onos-config/internal/verifrt"

// VerifStepEntry: arbitrary state, one arbitrary step (see harness/v2/entry.go)
func VerifStepEntry() {
	verifrt.HavocState(&S, "s")
	StatePredicates("")
	verifrt.HavocState(&P, "p")
	choice := verifrt.NondetInt("choice")
	verifrt.Assume(choice >= 0 && choice < NumChoices)
	verifrt.Assume(StateRange() && P.DevCode >= 0 && P.DevCode <= 16)
	verifrt.Cover("pre")
	pre := S
	Step(choice)
	verifrt.Cover("end")
	StepContracts(&pre, choice)
}

// VerifRun replays a schedule natively from the initial (all-zero) state.
func VerifRun() {
	verifrt.HavocState(&S.Verdict, "s.Verdict")
	n := verifrt.NondetInt("steps")
	for k := 0; k < n; k++ {
		verifrt.HavocState(&P, "p")
		choice := verifrt.NondetInt("choice")
		pre := S
		Step(choice)
		StepContracts(&pre, choice)
		StatePredicates("")
	}
	if verifrt.NondetBool("probe") {
		fixed := true
		for c := 0; c < NX; c++ {
			snap := S
			P = Params{CrashAfter: -1}
			Step(c)
			S.Crashes = snap.Crashes
			if S != snap {
				fixed = false
			}
			S = snap
		}
		verifrt.Region("fixed-point", fixed)
	}
	verifrt.Cover("ran")
}
