//go:build verif

package verifv3

import "github.com/onosproject/onos-config/internal/verifrt"

func StateRange() bool {
	ok := true
	const m = NX + 1
	c := &S.Config
	ok = ok && c.CIndex <= m && c.CTarget <= m && c.CChange <= m && c.CRevision <= m && c.COrdinal < 50
	ok = ok && c.AIndex <= m && c.ATarget <= m && c.ARevision <= m && c.AOrdinal < 50
	for i := 0; i < NX; i++ {
		t := &S.Txs[i]
		ok = ok && t.ChangeOrdinal < 50 && t.RbOrdinal < 50 && t.RbIndex <= m
		// record shape: a log entry has both change phases, a rollback request both rollback phases
		ok = ok && (!t.Exists || (t.ChCommit.Present && t.ChApply.Present))
		ok = ok && (!t.Rollback || (t.Exists && t.RbCommit.Present && t.RbApply.Present))
		ok = ok && (t.Exists || (!t.Rollback && !t.ChCommit.Present && !t.ChApply.Present && !t.RbCommit.Present && !t.RbApply.Present))
		ok = ok && t.ChCommit.State >= 0 && t.ChCommit.State <= stFAILED && t.ChApply.State >= 0 && t.ChApply.State <= stFAILED
		ok = ok && t.RbCommit.State >= 0 && t.RbCommit.State <= stFAILED && t.RbApply.State >= 0 && t.RbApply.State <= stFAILED
		ok = ok && c.CValues[i].Index <= m && c.AValues[i].Index <= m
		for j := 0; j < NX; j++ {
			ok = ok && t.RbValues[j].Index <= m
		}
	}
	// cursor shape: a target behind the index means the last operation at that cursor was the rollback of Txs[index]
	ok = ok && (c.CTarget >= c.CIndex || (c.CIndex >= 1 && c.CIndex <= NX && S.Txs[(c.CIndex+NX-1)%NX].Rollback))
	ok = ok && (c.ATarget >= c.AIndex || (c.AIndex >= 1 && c.AIndex <= NX && S.Txs[(c.AIndex+NX-1)%NX].Rollback))
	return ok && S.LastChangeCommit <= m && S.LastChangeApply <= m && S.Crashes < 100
}

func done(p Phase) bool { return p.Present && p.State >= stCOMPLETE }

func txFinal(i int) bool {
	t := &S.Txs[i]
	if !t.Exists {
		return true
	}
	if t.Rollback {
		return done(t.RbCommit) && done(t.RbApply)
	}
	return done(t.ChCommit) && done(t.ChApply)
}

// StatePredicates: the spec's Consistency invariant (committed / applied / device values of the latest committed /
// applied revision) and the Order monitors, plus witnesses.
func StatePredicates(prefix string) {
	verifrt.Region(prefix+"bad:range", !StateRange())
	verifrt.Region(prefix+"reach:tx1-change-applied", S.Txs[0].Exists && S.Txs[0].ChApply.Present && S.Txs[0].ChApply.State == stCOMPLETE)
	verifrt.Region(prefix+"reach:tx1-change-committed", S.Txs[0].Exists && S.Txs[0].ChCommit.Present && S.Txs[0].ChCommit.State == stCOMPLETE)
	verifrt.Region(prefix+"reach:tx1-commit-failed", S.Txs[0].Exists && S.Txs[0].ChCommit.Present && S.Txs[0].ChCommit.State == stFAILED)
	verifrt.Region(prefix+"reach:tx1-rolled-back", S.Txs[0].Exists && S.Txs[0].Rollback && S.Txs[0].RbCommit.Present && S.Txs[0].RbCommit.State == stCOMPLETE)
	if NX > 1 {
		both := true
		for i := 0; i < NX; i++ {
			both = both && S.Txs[i].Exists && S.Txs[i].Rollback && S.Txs[i].RbCommit.State == stCOMPLETE
		}
		verifrt.Region(prefix+"reach:all-rolled-back", both)
		verifrt.Region(prefix+"reach:tx2-change-applied", S.Txs[NX-1].Exists && S.Txs[NX-1].ChApply.Present && S.Txs[NX-1].ChApply.State == stCOMPLETE)
	}
	verifrt.Region(prefix+"reach:crashed", S.Crashes > 0)
	c := &S.Config
	// Consistency, committed: the latest committed revision's values are in Committed.Values
	badC, badA, badDev := false, false, false
	for i := 0; i < NX; i++ {
		if c.CRevision == uint8(i+1) {
			v := &c.CValues[i]
			if !(v.Present && !v.Deleted && v.Index == uint8(i+1)) {
				badC = true
			}
		}
		if c.ARevision == uint8(i+1) {
			v := &c.AValues[i]
			if !(v.Present && !v.Deleted && v.Index == uint8(i+1)) {
				badA = true
			}
			// ... and on the running, synchronised device
			if S.Connected && !S.DevVals[i] {
				badDev = true
			}
		}
	}
	verifrt.Region(prefix+"bad:c20-consistency-committed-values", badC)
	verifrt.Region(prefix+"bad:c20-consistency-applied-values", badA)
	verifrt.Region(prefix+"bad:c20-consistency-device-values", badDev)
	// Order
	verifrt.Region(prefix+"bad:c20-order-changes-complete-in-log-order", S.OrderBad)
	// a change whose apply failed keeps later changes from being applied until it is rolled back
	blocked := false
	for i := 0; i < NX; i++ {
		t := &S.Txs[i]
		if t.Exists && t.ChApply.Present && t.ChApply.State == stFAILED && !(t.Rollback && t.RbApply.Present && t.RbApply.State == stCOMPLETE) {
			for j := i + 1; j < NX; j++ {
				u := &S.Txs[j]
				if u.Exists && u.ChApply.Present && (u.ChApply.State == stINPROGRESS || u.ChApply.State == stCOMPLETE) {
					blocked = true
				}
			}
		}
	}
	verifrt.Region(prefix+"bad:c20-order-applied-past-a-failed-apply", blocked)
	// termination (with the fixed-point probe): connected, nothing can move, some transaction not final
	// The specification's Termination is stated under weak fairness of RollbackChange(i) as well ("so long as the
	// system can make progress"): a rollback waits, by design, for the rollbacks of the later committed revisions, so
	// a state in which a rollback request is still enabled is not a dead end.
	allFinal, any, canRollback := true, false, false
	for i := 0; i < NX; i++ {
		allFinal = allFinal && txFinal(i)
		any = any || S.Txs[i].Exists
		t := &S.Txs[i]
		if WithRollback && t.Exists && !t.Rollback && t.ChCommit.State == stCOMPLETE {
			canRollback = true
		}
	}
	verifrt.Region(prefix+"bad:c20-stranded", !allFinal && !canRollback && S.Connected && S.Crashes <= Budget)
	verifrt.Region(prefix+"all-final", allFinal && any)
}

// StepContracts (guard shaped)
func StepContracts(pre *State, choice int) {
	a, b := &pre.Config, &S.Config
	// values of the committed configuration change only when the reconciled transaction is the next change in log
	// order (Committed.Change == index-1) or its rollback
	if a.CValues != b.CValues {
		verifrt.Cover("committed-values-changed")
		who := -1
		for i := 0; i < NX; i++ {
			if choice == ChTx+i {
				who = i
			}
		}
		verifrt.Assert(who >= 0, "c20-committed-values-change-only-in-a-transaction-step")
		if who >= 0 {
			t := &pre.Txs[who]
			if !t.Rollback {
				verifrt.Assert(a.CChange == uint8(who), "c20-change-commits-in-log-order")
				verifrt.Assert(S.Verdict[who], "c20-commit-needs-plugin-acceptance")
			} else {
				verifrt.Assert(a.CRevision == uint8(who+1), "c20-rollback-commits-only-the-latest-revision")
			}
		}
	}
	verifrt.Assert(b.COrdinal >= a.COrdinal && b.AOrdinal >= a.AOrdinal, "c20-ordinals-never-decrease")
}
