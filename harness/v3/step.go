//go:build verif

// Package verifv3 is the flat-state harness of the v3 (per-target) transaction controller, the counterpart of
// spec/Transaction.tla: the state is a vector of scalars, Step(choice) runs one real Reconcile or one of the
// spec's environment actions (AppendChange, RollbackChange, target connect / restart).
package verifv3

import (
	"context"

	configv2 "github.com/onosproject/onos-api/go/onos/config/v2"
	configapi "github.com/onosproject/onos-api/go/onos/config/v3"
	topoapi "github.com/onosproject/onos-api/go/onos/topo"
	transactionctl "github.com/onosproject/onos-config/pkg/controller/v3/transaction"
	"github.com/onosproject/onos-config/pkg/pluginregistry"
	"github.com/onosproject/onos-config/pkg/southbound/gnmi"
	"github.com/onosproject/onos-config/pkg/store/topo"
	configurationstore "github.com/onosproject/onos-config/pkg/store/v3/configuration"
	transactionstore "github.com/onosproject/onos-config/pkg/store/v3/transaction"
	"github.com/onosproject/onos-lib-go/pkg/controller"
	"github.com/onosproject/onos-lib-go/pkg/errors"
	gpb "github.com/openconfig/gnmi/proto/gnmi"
	"google.golang.org/grpc/codes"
	"google.golang.org/grpc/status"
)

var vTarget = configapi.Target{ID: "t1", Type: "ty", Version: "1"}

const vNode = configapi.NodeID("gnmi:onos-config")
const vConn = "conn-t1"

func vPath(i int) string {
	switch i {
	case 0:
		return "/p1"
	case 1:
		return "/p2"
	}
	return "/p3"
}

type Phase struct {
	Present bool
	State   int32
}

type PV struct {
	Present bool
	Deleted bool
	Index   uint8
}

type Tx struct {
	Exists        bool
	Rollback      bool // Status.Phase == ROLLBACK
	ChangeOrdinal uint8
	ChCommit      Phase
	ChApply       Phase
	ChApplyFailed bool
	RbOrdinal     uint8
	RbCommit      Phase
	RbApply       Phase
	RbIndex       uint8
	RbValues      [NX]PV
}

type Cfg struct {
	CIndex, CTarget, CChange, CRevision, COrdinal uint8
	CValues                                       [NX]PV
	AIndex, ATarget, ARevision, AOrdinal          uint8
	AValues                                       [NX]PV
}

type State struct {
	Txs       [NX]Tx
	Config    Cfg
	Verdict   [NX]bool // plugin verdict per transaction (environment, constant)
	Connected bool
	DevVals   [NX]bool // device contents: leaf i present
	// ghost history monitors (spec Order): the index of the last completed change commit / apply and their order
	LastChangeCommit, LastChangeApply uint8
	OrderBad                          bool
	Crashes                           uint8
}

type Params struct {
	DevCode    int32
	CrashAfter int
}

var (
	S      State
	P      Params
	Writes int
	CurX   int
)

func crashed() bool { return WithCrash && P.CrashAfter >= 0 && Writes >= P.CrashAfter }

var errCrash = errors.NewUnavailable("process stopped")

const (
	stPENDING    = int32(configapi.TransactionPhaseStatus_PENDING)
	stINPROGRESS = int32(configapi.TransactionPhaseStatus_IN_PROGRESS)
	stCOMPLETE   = int32(configapi.TransactionPhaseStatus_COMPLETE)
	stABORTED    = int32(configapi.TransactionPhaseStatus_ABORTED)
	stCANCELED   = int32(configapi.TransactionPhaseStatus_CANCELED)
	stFAILED     = int32(configapi.TransactionPhaseStatus_FAILED)
)

func ph(p Phase) *configapi.TransactionPhaseStatus {
	if !p.Present {
		return nil
	}
	return &configapi.TransactionPhaseStatus{State: configapi.TransactionPhaseStatus_State(p.State)}
}

func flatPh(p *configapi.TransactionPhaseStatus) Phase {
	if p == nil {
		return Phase{}
	}
	return Phase{Present: true, State: int32(p.State)}
}

func pvMap(pvs *[NX]PV) map[string]configapi.PathValue {
	m := make(map[string]configapi.PathValue)
	for j := 0; j < NX; j++ {
		if pvs[j].Present {
			pv := configapi.PathValue{Path: vPath(j), Deleted: pvs[j].Deleted, Index: configapi.Index(pvs[j].Index)}
			if !pv.Deleted {
				pv.Value = *configapi.NewTypedValueString("v")
			}
			m[vPath(j)] = pv
		}
	}
	return m
}

func pvFlat(m map[string]configapi.PathValue, pvs *[NX]PV) {
	for j := 0; j < NX; j++ {
		pv, ok := m[vPath(j)]
		pvs[j].Present = ok
		if ok {
			pvs[j].Deleted = pv.Deleted
			pvs[j].Index = uint8(pv.Index)
		}
	}
}

// ---- transaction store

type txStore struct{ transactionstore.Store }

func (s *txStore) Get(ctx context.Context, id configapi.TransactionID) (*configapi.Transaction, error) {
	if crashed() {
		return nil, errCrash
	}
	if id.Target.ID != vTarget.ID || id.Index < 1 || id.Index > NX || !S.Txs[id.Index-1].Exists {
		return nil, errors.NewNotFound("transaction not found")
	}
	i := int(id.Index - 1)
	rec := &S.Txs[i]
	t := &configapi.Transaction{ID: configapi.TransactionID{Target: vTarget, Index: id.Index}}
	t.Version, t.Revision = 1, 1
	t.Values = map[string]configapi.PathValue{vPath(i): {Path: vPath(i), Value: *configapi.NewTypedValueString("v"), Index: id.Index}}
	if rec.Rollback {
		t.Status.Phase = configapi.TransactionStatus_ROLLBACK
	}
	t.Status.Change.Ordinal = configapi.Ordinal(rec.ChangeOrdinal)
	t.Status.Change.Commit = ph(rec.ChCommit)
	t.Status.Change.Apply = ph(rec.ChApply)
	if rec.ChApplyFailed && t.Status.Change.Apply != nil {
		t.Status.Change.Apply.Failure = &configapi.Failure{}
	}
	t.Status.Rollback.Ordinal = configapi.Ordinal(rec.RbOrdinal)
	t.Status.Rollback.Commit = ph(rec.RbCommit)
	t.Status.Rollback.Apply = ph(rec.RbApply)
	t.Status.Rollback.Index = configapi.Index(rec.RbIndex)
	t.Status.Rollback.Values = pvMap(&rec.RbValues)
	return t, nil
}

func (s *txStore) UpdateStatus(ctx context.Context, t *configapi.Transaction) error {
	if crashed() {
		return errCrash
	}
	if t.ID.Index < 1 || t.ID.Index > NX || !S.Txs[t.ID.Index-1].Exists {
		return errors.NewNotFound("transaction not found")
	}
	i := int(t.ID.Index - 1)
	rec := &S.Txs[i]
	old := *rec
	rec.Rollback = t.Status.Phase == configapi.TransactionStatus_ROLLBACK
	rec.ChangeOrdinal = uint8(t.Status.Change.Ordinal)
	rec.ChCommit = flatPh(t.Status.Change.Commit)
	rec.ChApply = flatPh(t.Status.Change.Apply)
	rec.ChApplyFailed = t.Status.Change.Apply != nil && t.Status.Change.Apply.Failure != nil
	rec.RbOrdinal = uint8(t.Status.Rollback.Ordinal)
	rec.RbCommit = flatPh(t.Status.Rollback.Commit)
	rec.RbApply = flatPh(t.Status.Rollback.Apply)
	rec.RbIndex = uint8(t.Status.Rollback.Index)
	pvFlat(t.Status.Rollback.Values, &rec.RbValues)
	// ghost (spec Order, changes): change commits / applies complete in increasing index order
	if rec.ChCommit.Present && rec.ChCommit.State == stCOMPLETE && !(old.ChCommit.Present && old.ChCommit.State == stCOMPLETE) {
		if uint8(i+1) <= S.LastChangeCommit {
			S.OrderBad = true
		}
		S.LastChangeCommit = uint8(i + 1)
	}
	if rec.ChApply.Present && rec.ChApply.State == stCOMPLETE && !(old.ChApply.Present && old.ChApply.State == stCOMPLETE) {
		if uint8(i+1) <= S.LastChangeApply {
			S.OrderBad = true
		}
		S.LastChangeApply = uint8(i + 1)
		// each phase is committed before it is applied
		if !(rec.ChCommit.Present && rec.ChCommit.State == stCOMPLETE) {
			S.OrderBad = true
		}
	}
	Writes++
	return nil
}

// ---- configuration store

type cfgStore struct{ configurationstore.Store }

func (s *cfgStore) Get(ctx context.Context, id configapi.ConfigurationID) (*configapi.Configuration, error) {
	if crashed() {
		return nil, errCrash
	}
	if id.Target.ID != vTarget.ID {
		return nil, errors.NewNotFound("configuration not found")
	}
	c := &configapi.Configuration{ID: configapi.ConfigurationID{Target: vTarget}}
	c.Version, c.Revision = 1, 1
	r := &S.Config
	c.Committed.Index, c.Committed.Target, c.Committed.Change = configapi.Index(r.CIndex), configapi.Index(r.CTarget), configapi.Index(r.CChange)
	c.Committed.Revision, c.Committed.Ordinal = configapi.Revision(r.CRevision), configapi.Ordinal(r.COrdinal)
	c.Committed.Values = pvMap(&r.CValues)
	c.Applied.Index, c.Applied.Target = configapi.Index(r.AIndex), configapi.Index(r.ATarget)
	c.Applied.Revision, c.Applied.Ordinal = configapi.Revision(r.ARevision), configapi.Ordinal(r.AOrdinal)
	c.Applied.Values = pvMap(&r.AValues)
	c.Applied.Term = 1
	c.Status.State = configapi.ConfigurationStatus_SYNCHRONIZED
	c.Status.Mastership = &configapi.MastershipStatus{Term: 1}
	if S.Connected {
		c.Status.Mastership.Master = vConn
	}
	return c, nil
}

func (s *cfgStore) UpdateStatus(ctx context.Context, c *configapi.Configuration) error {
	if crashed() {
		return errCrash
	}
	r := &S.Config
	r.CIndex, r.CTarget, r.CChange = uint8(c.Committed.Index), uint8(c.Committed.Target), uint8(c.Committed.Change)
	r.CRevision, r.COrdinal = uint8(c.Committed.Revision), uint8(c.Committed.Ordinal)
	pvFlat(c.Committed.Values, &r.CValues)
	r.AIndex, r.ATarget = uint8(c.Applied.Index), uint8(c.Applied.Target)
	r.ARevision, r.AOrdinal = uint8(c.Applied.Revision), uint8(c.Applied.Ordinal)
	pvFlat(c.Applied.Values, &r.AValues)
	Writes++
	return nil
}

// ---- topo / conns / device / plugin

type topoStore struct{ topo.Store }

func (s *topoStore) Get(ctx context.Context, id topoapi.ID) (*topoapi.Object, error) {
	if crashed() {
		return nil, errCrash
	}
	if id == topoapi.ID(vTarget.ID) {
		o := &topoapi.Object{ID: id, Type: topoapi.Object_ENTITY, Obj: &topoapi.Object_Entity{Entity: &topoapi.Entity{}}}
		_ = o.SetAspect(&topoapi.Configurable{Type: "ty", Version: "1"})
		return o, nil
	}
	if id == vConn && S.Connected {
		return &topoapi.Object{ID: id, Type: topoapi.Object_RELATION, Obj: &topoapi.Object_Relation{Relation: &topoapi.Relation{
			KindID: topoapi.CONTROLS, SrcEntityID: topoapi.ID(vNode), TgtEntityID: topoapi.ID(vTarget.ID)}}}, nil
	}
	return nil, errors.NewNotFound("object not found")
}

type vConnT struct{ gnmi.Conn }

func (c *vConnT) ID() gnmi.ConnID { return vConn }

func (c *vConnT) Set(ctx context.Context, r *gpb.SetRequest) (*gpb.SetResponse, error) {
	if crashed() {
		return nil, errors.FromGRPC(status.Error(codes.Unavailable, "process stopped"))
	}
	if WithFaults && P.DevCode != 0 {
		return nil, errors.FromGRPC(status.Error(codes.Code(P.DevCode), "device fault"))
	}
	for _, p := range r.Delete {
		for j := 0; j < NX; j++ {
			if p != nil && len(p.Elem) == 1 && "/"+p.Elem[0].Name == vPath(j) {
				S.DevVals[j] = false
			}
		}
	}
	for _, u := range r.Update {
		for j := 0; j < NX; j++ {
			if u != nil && u.Path != nil && len(u.Path.Elem) == 1 && "/"+u.Path.Elem[0].Name == vPath(j) {
				S.DevVals[j] = true
			}
		}
	}
	Writes++
	return &gpb.SetResponse{}, nil
}

type connMgr struct{ gnmi.ConnManager }

func (m *connMgr) Get(ctx context.Context, id gnmi.ConnID) (gnmi.Conn, bool) {
	if id == vConn && S.Connected {
		return &vConnT{}, true
	}
	return nil, false
}

type vPlugin struct{ pluginregistry.ModelPlugin }

func (p *vPlugin) Validate(ctx context.Context, jsonData []byte) error {
	if S.Verdict[CurX] {
		return nil
	}
	return errors.NewInvalid("rejected by model")
}

type registry struct{ pluginregistry.PluginRegistry }

func (r *registry) GetPlugin(model configv2.TargetType, version configv2.TargetVersion) (pluginregistry.ModelPlugin, bool) {
	return &vPlugin{}, true
}

// choices: [0,NX) reconcile transaction i; NX append change; NX+1+i rollback change i; then connect, restart, stutter
const (
	ChTx       = 0
	ChAppend   = NX
	ChRollback = NX + 1
	ChConnect  = ChRollback + NX
	ChRestart  = ChConnect + 1
	ChStutter  = ChRestart + 1
	NumChoices = ChStutter + 1
)

// Step performs one scheduler choice.
func Step(choice int) {
	Writes = 0
	defer func() {
		if crashed() {
			S.Crashes++
		}
	}()
	for i := 0; i < NX; i++ {
		if choice == ChTx+i {
			CurX = i
			r := transactionctl.NewReconcilerForVerif(vNode, &txStore{}, &cfgStore{}, &connMgr{}, &topoStore{}, &registry{})
			_, _ = r.Reconcile(controller.NewID(configapi.TransactionID{Target: vTarget, Index: configapi.Index(i + 1)}))
		}
		// spec RollbackChange(i): the change has been committed and is not yet being rolled back
		if WithRollback && choice == ChRollback+i {
			t := &S.Txs[i]
			if t.Exists && !t.Rollback && t.ChCommit.Present && t.ChCommit.State == stCOMPLETE {
				t.Rollback = true
				t.RbCommit = Phase{Present: true, State: stPENDING}
				t.RbApply = Phase{Present: true, State: stPENDING}
			}
		}
	}
	if choice == ChAppend {
		// spec AppendChange: the next log entry, change commit and apply PENDING
		for i := 0; i < NX; i++ {
			if !S.Txs[i].Exists {
				S.Txs[i] = Tx{Exists: true, ChCommit: Phase{Present: true, State: stPENDING}, ChApply: Phase{Present: true, State: stPENDING}}
				break
			}
		}
	}
	if choice == ChConnect {
		S.Connected = true
	}
	if WithFaults && choice == ChRestart {
		S.Connected = false
		S.DevVals = [NX]bool{}
	}
}
