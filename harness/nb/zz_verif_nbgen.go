//go:build verif

package gnmi

// Shape-generic request generators for the northbound harnesses: whatever the wire can decode, bounded in size.
// Singular message fields may be nil, repeated fields have 0..n (non-nil) entries, oneofs may be unset,
// strings are short symbolic strings over an alphabet that contains every byte the handlers treat specially.

import (
	"github.com/gogo/protobuf/proto"
	configapi "github.com/onosproject/onos-api/go/onos/config/v2"
	"github.com/onosproject/onos-config/internal/verifrt"
	"github.com/openconfig/gnmi/proto/gnmi"
	"github.com/openconfig/gnmi/proto/gnmi_ext"
	"math"
)

const vNameAlpha = "a[]=/\\(*.kl"

func vd(i int) string { return "0123456789"[i : i+1] }

func vGenTarget(tag string) string {
	k := verifrt.NondetInt(tag)
	verifrt.Assume(k >= 0 && k <= 4)
	switch k {
	case 0:
		return ""
	case 1:
		return "t1"
	case 2:
		return "t2"
	case 3:
		return "tx"
	}
	return "*"
}

// vGenElems: 0..maxElems elements (count case-split), names symbolic of 0..nameLen bytes, optional single key
func vGenElems(tag string, maxElems, nameLen int, withKey bool) []*gnmi.PathElem {
	n := verifrt.Fork(tag+".nelem", maxElems+1)
	var elems []*gnmi.PathElem
	for i := 0; i < n; i++ {
		t := tag + ".e" + vd(i)
		e := &gnmi.PathElem{Name: verifrt.NondetString(t+".name", nameLen, vNameAlpha)}
		if withKey && verifrt.NondetBool(t+".haskey") {
			e.Key = map[string]string{
				verifrt.NondetString(t+".kname", 1, "k="): verifrt.NondetString(t+".kval", 1, "1*/]("),
			}
		}
		elems = append(elems, e)
	}
	return elems
}

// vModelElems: the elements of a node of the model of vRWPaths
func vModelElems(i int) []*gnmi.PathElem {
	k := map[string]string{"k": verifrt.NondetString("op.kval", 1, "1*")}
	switch i {
	case 0:
		return []*gnmi.PathElem{{Name: "a"}, {Name: "b"}}
	case 1:
		return []*gnmi.PathElem{{Name: "a"}, {Name: "bc"}}
	case 2:
		return []*gnmi.PathElem{{Name: "l", Key: k}, {Name: "k"}}
	case 3:
		return []*gnmi.PathElem{{Name: "l", Key: k}, {Name: "x"}}
	case 4:
		return []*gnmi.PathElem{{Name: "l", Key: k}}
	}
	return []*gnmi.PathElem{{Name: "a"}}
}

// vGenPath: nil or a path with a symbolic target and generated elements
func vGenPath(tag string, maxElems, nameLen int, withKey bool) *gnmi.Path {
	if verifrt.NondetBool(tag + ".nil") {
		return nil
	}
	return &gnmi.Path{Target: vGenTarget(tag + ".target"), Elem: vGenElems(tag, maxElems, nameLen, withKey)}
}

// vGenValue: nil, unset oneof, or any alternative of the oneof (what the numbers become is C17's subject; here only that
// no alternative crashes the server whatever the model says about the leaf)
func vGenValue(tag string) *gnmi.TypedValue {
	k := verifrt.NondetInt(tag + ".kind")
	verifrt.Assume(k >= 0 && k <= 16)
	s := verifrt.NondetString(tag+".str", 2, "1a*")
	switch k {
	case 0:
		return nil
	case 1:
		return &gnmi.TypedValue{}
	case 2:
		return &gnmi.TypedValue{Value: &gnmi.TypedValue_StringVal{StringVal: s}}
	case 3:
		return &gnmi.TypedValue{Value: &gnmi.TypedValue_AsciiVal{AsciiVal: s}}
	case 4:
		return &gnmi.TypedValue{Value: &gnmi.TypedValue_BoolVal{BoolVal: verifrt.NondetBool(tag + ".bool")}}
	case 5:
		return &gnmi.TypedValue{Value: &gnmi.TypedValue_JsonVal{JsonVal: []byte("{}")}}
	case 6:
		return &gnmi.TypedValue{Value: &gnmi.TypedValue_JsonIetfVal{JsonIetfVal: []byte("{}")}}
	case 7:
		return &gnmi.TypedValue{Value: &gnmi.TypedValue_BytesVal{BytesVal: []byte(s)}}
	case 9:
		return &gnmi.TypedValue{Value: &gnmi.TypedValue_IntVal{IntVal: verifrt.NondetInt64(tag + ".int")}}
	case 10:
		return &gnmi.TypedValue{Value: &gnmi.TypedValue_UintVal{UintVal: verifrt.NondetUint64(tag + ".uint")}}
	case 11:
		return &gnmi.TypedValue{Value: &gnmi.TypedValue_DecimalVal{DecimalVal: &gnmi.Decimal64{Digits: verifrt.NondetInt64(tag + ".digits"), Precision: vGenPrecision(tag)}}}
	case 12:
		return &gnmi.TypedValue{Value: &gnmi.TypedValue_FloatVal{FloatVal: vGenFloat(tag)}}
	case 13:
		return &gnmi.TypedValue{Value: &gnmi.TypedValue_LeaflistVal{LeaflistVal: &gnmi.ScalarArray{Element: []*gnmi.TypedValue{{Value: &gnmi.TypedValue_StringVal{StringVal: verifrt.NondetStringN(tag+".lstr", 1, "1a")}}}}}}
	case 14:
		return &gnmi.TypedValue{Value: &gnmi.TypedValue_LeaflistVal{LeaflistVal: &gnmi.ScalarArray{Element: []*gnmi.TypedValue{{Value: &gnmi.TypedValue_IntVal{IntVal: verifrt.NondetInt64(tag + ".int")}}, {}}}}}
	case 15:
		return &gnmi.TypedValue{Value: &gnmi.TypedValue_LeaflistVal{LeaflistVal: &gnmi.ScalarArray{}}}
	case 16:
		return &gnmi.TypedValue{Value: &gnmi.TypedValue_AnyVal{}}
	}
	return &gnmi.TypedValue{Value: &gnmi.TypedValue_ProtoBytes{ProtoBytes: []byte(s)}}
}

// vGenNumCase: floats are concrete in the engine and the decimal rendering loops over the precision, so both are concrete
// cases (one case split for the two): precisions none / the valid extremes 1 and 18 / values no decimal64 has; floats
// finite / the infinities / a NaN
func vGenNumCase(tag string) int { return verifrt.Fork(tag+".numcase", 6) }

func vGenPrecision(tag string) uint32 {
	switch vGenNumCase(tag) {
	case 0:
		return 0
	case 1:
		return 1
	case 2:
		return 18
	case 3:
		return 19
	case 4:
		return 64
	}
	return 65
}

func vGenFloat(tag string) float32 {
	switch vGenNumCase(tag) {
	case 1:
		return float32(math.Inf(1))
	case 2:
		return float32(math.Inf(-1))
	case 3:
		return float32(math.NaN())
	}
	return 1.5
}

// vNoSync: the harness does not generate the SYNCHRONOUS strategy (a synchronous Get waits in goroutines)
var vNoSync bool

// vGenExtensions: none, a well-formed strategy (sync or async), well-formed overrides (also an entry without a value / with an
// empty value for a target of the request), garbage bytes under either id,
// an unrelated id, or a non-registered extension
func vGenExtensions(tag string) []*gnmi_ext.Extension {
	k := verifrt.NondetInt(tag + ".kind")
	verifrt.Assume(k >= 0 && k <= 8)
	reg := func(id gnmi_ext.ExtensionID, msg []byte) []*gnmi_ext.Extension {
		return []*gnmi_ext.Extension{{Ext: &gnmi_ext.Extension_RegisteredExt{RegisteredExt: &gnmi_ext.RegisteredExtension{Id: id, Msg: msg}}}}
	}
	switch k {
	case 0:
		return nil
	case 1:
		st := &configapi.TransactionStrategy{}
		if !vNoSync && verifrt.NondetBool(tag+".sync") {
			st.Synchronicity = configapi.TransactionStrategy_SYNCHRONOUS
		}
		b, _ := proto.Marshal(st)
		return reg(configapi.TransactionStrategyExtensionID, b)
	case 2:
		ov := &configapi.TargetVersionOverrides{Overrides: map[string]*configapi.TargetTypeVersion{"t2": {TargetType: "ty", TargetVersion: "1"}}}
		b, _ := proto.Marshal(ov)
		return reg(configapi.TargetVersionOverridesID, b)
	case 3:
		return reg(configapi.TransactionStrategyExtensionID, []byte{0xff})
	case 4:
		return reg(configapi.TargetVersionOverridesID, []byte{0xff})
	case 5:
		return reg(99, []byte{1})
	case 7:
		// a map entry that carries a key and no value decodes to a nil *TargetTypeVersion
		ov := &configapi.TargetVersionOverrides{Overrides: map[string]*configapi.TargetTypeVersion{"t1": nil}}
		b, _ := proto.Marshal(ov)
		return reg(configapi.TargetVersionOverridesID, b)
	case 8:
		ov := &configapi.TargetVersionOverrides{Overrides: map[string]*configapi.TargetTypeVersion{"t1": {}}}
		b, _ := proto.Marshal(ov)
		return reg(configapi.TargetVersionOverridesID, b)
	}
	return []*gnmi_ext.Extension{{Ext: &gnmi_ext.Extension_MasterArbitration{MasterArbitration: &gnmi_ext.MasterArbitration{}}}, {}}
}
