//go:build verif

package gnmi

// Environment shared by the northbound harnesses (C08 C12 C13 C14 C19): small deterministic stubs behind the four
// interfaces of the gNMI Server (topo, plugin registry, transaction store, configuration store). Each stub is part of
// the claim and is listed in the evidence.

import (
	"context"
	"time"

	"github.com/onosproject/onos-api/go/onos/config/admin"
	configapi "github.com/onosproject/onos-api/go/onos/config/v2"
	topoapi "github.com/onosproject/onos-api/go/onos/topo"
	"github.com/onosproject/onos-config/pkg/pluginregistry"
	"github.com/onosproject/onos-config/pkg/store/topo"
	"github.com/onosproject/onos-config/pkg/store/v2/configuration"
	transactionstore "github.com/onosproject/onos-config/pkg/store/v2/transaction"
	pathutils "github.com/onosproject/onos-config/pkg/utils/path"
	"github.com/onosproject/onos-lib-go/pkg/errors"
	"github.com/openconfig/gnmi/proto/gnmi"
)

// ---- topo: t1 (type ty, version 1, plugin registered), t2 (type tz, version 1, no plugin); nothing else exists

type vTopo struct{ topo.Store }

func vTopoObject(id topoapi.ID) *topoapi.Object {
	o := &topoapi.Object{ID: id, Type: topoapi.Object_ENTITY, Obj: &topoapi.Object_Entity{Entity: &topoapi.Entity{}}}
	ty := "tz"
	if id == "t1" {
		ty = "ty"
	}
	_ = o.SetAspect(&topoapi.Configurable{Type: ty, Version: "1"}) // one call: the aspect value is merged, not the call
	return o
}

func (s *vTopo) Get(ctx context.Context, id topoapi.ID) (*topoapi.Object, error) {
	if id == "t1" || id == "t2" {
		return vTopoObject(id), nil
	}
	return nil, errors.NewNotFound("object not found")
}

func (s *vTopo) List(ctx context.Context, filters *topoapi.Filters) ([]topoapi.Object, error) {
	return []topoapi.Object{*vTopoObject("t1"), *vTopoObject("t2")}, nil
}

// ---- model plugin for (ty, 1): a small model with a container, sibling leaves sharing a textual prefix, and a list

type vPlugin struct{ pluginregistry.ModelPlugin }

func vRWPaths() pathutils.ReadWritePathMap {
	return pathutils.ReadWritePathMap{
		"/a/b":      admin.ReadWritePath{ValueType: configapi.ValueType_STRING},
		"/a/bc":     admin.ReadWritePath{ValueType: configapi.ValueType_STRING},
		"/l[k=*]/k": admin.ReadWritePath{ValueType: configapi.ValueType_STRING, IsAKey: true, AttrName: "k"},
		"/l[k=*]/x": admin.ReadWritePath{ValueType: configapi.ValueType_STRING},
	}
}

func (p *vPlugin) GetInfo() *pluginregistry.ModelPluginInfo {
	return &pluginregistry.ModelPluginInfo{
		Info:           admin.ModelInfo{Name: "ty", Version: "1"},
		ReadWritePaths: vRWPaths(),
	}
}

func (p *vPlugin) Capabilities(ctx context.Context) *gnmi.CapabilityResponse {
	return &gnmi.CapabilityResponse{SupportedModels: []*gnmi.ModelData{{Name: "ty", Organization: "o", Version: "1"}}}
}

// GetPathValues (JSON-valued updates) returns one fixed leaf: the JSON decoding is the plugin's job (outside the claim).
func (p *vPlugin) GetPathValues(ctx context.Context, pathPrefix string, jsonData []byte) ([]*configapi.PathValue, error) {
	return []*configapi.PathValue{{Path: "/a/b", Value: *configapi.NewTypedValueString("j")}}, nil
}

type vRegistry struct{ pluginregistry.PluginRegistry }

func (r *vRegistry) GetPlugin(model configapi.TargetType, version configapi.TargetVersion) (pluginregistry.ModelPlugin, bool) {
	if model == "ty" && version == "1" {
		return &vPlugin{}, true
	}
	return nil, false
}

func (r *vRegistry) GetPlugins() []pluginregistry.ModelPlugin {
	return []pluginregistry.ModelPlugin{&vPlugin{}}
}

// ---- transaction store: counts Create calls, remembers the transaction, delivers a scripted event sequence

var (
	vCreated int
	vTx      *configapi.Transaction
	vNEvents int      // number of events delivered by Watch
	vStates  [4]int32 // TransactionStatus_State of each event
	vFailSet bool     // Status.Failure present on FAILED events
	vFail    int32    // Failure_Type on FAILED events
)

type vTxStore struct{ transactionstore.Store }

func (s *vTxStore) Create(ctx context.Context, t *configapi.Transaction) error {
	vCreated++
	t.Index = 7
	t.Version = 1
	t.Revision = 1
	vTx = t
	return nil
}

// Watch contract (pkg/store/v2/transaction): the current state is replayed first, then every later update, in order.
func (s *vTxStore) Watch(ctx context.Context, ch chan<- configapi.TransactionEvent, opts ...transactionstore.WatchOption) error {
	tx := vTx
	go func() {
		for i := 0; i < vNEvents; i++ {
			ev := configapi.TransactionEvent{Type: configapi.TransactionEvent_UPDATED}
			if tx != nil {
				ev.Transaction = *tx
			}
			ev.Transaction.Status.State = configapi.TransactionStatus_State(vStates[i])
			if vStates[i] == int32(configapi.TransactionStatus_FAILED) && vFailSet {
				ev.Transaction.Status.Failure = &configapi.Failure{Type: configapi.Failure_Type(vFail)}
			}
			ch <- ev
		}
		if vCloseAfter {
			close(ch) // the store closes the channel once the caller's context is cancelled / its deadline passed
		}
	}()
	return nil
}

// vCloseAfter: the watch channel is closed after the scripted events (the request context ended)
var vCloseAfter bool

// vEndedCtx is a request context that has ended (cancelled by the client or past its deadline)
type vEndedCtx struct{}

func (c *vEndedCtx) Deadline() (time.Time, bool) { return time.Time{}, false }
func (c *vEndedCtx) Done() <-chan struct{}       { return nil }
func (c *vEndedCtx) Err() error                  { return vErrEnded() }

// (a function, not a package variable: package initialisers are not run by the engine)
func vErrEnded() error                                 { return errors.NewCanceled("context canceled") }
func (c *vEndedCtx) Value(key interface{}) interface{} { return nil }

// ---- configuration store: t1's configuration, empty or populated

var vPopulated bool

type vCfgStore struct{ configuration.Store }

func (s *vCfgStore) Get(ctx context.Context, id configapi.ConfigurationID) (*configapi.Configuration, error) {
	if id != configuration.NewID("t1", "ty", "1") {
		return nil, errors.NewNotFound("configuration not found")
	}
	c := &configapi.Configuration{ID: id, TargetID: "t1"}
	if vPopulated {
		c.Values = map[string]*configapi.PathValue{
			"/a/b":       {Path: "/a/b", Value: *configapi.NewTypedValueString("1")},
			"/a/bc":      {Path: "/a/bc", Value: *configapi.NewTypedValueString("2")},
			"/l[k=10]/k": {Path: "/l[k=10]/k", Value: *configapi.NewTypedValueString("10")},
			"/l[k=10]/x": {Path: "/l[k=10]/x", Value: *configapi.NewTypedValueString("3"), Deleted: true},
		}
	}
	return c, nil
}

func vServer() *Server {
	return &Server{topo: &vTopo{}, pluginRegistry: &vRegistry{}, transactions: &vTxStore{}, configurations: &vCfgStore{}}
}
