//go:build verif

package gnmi

import (
	"context"

	configapi "github.com/onosproject/onos-api/go/onos/config/v2"
	topoapi "github.com/onosproject/onos-api/go/onos/topo"
	"github.com/onosproject/onos-config/internal/verifrt"
	controllerutils "github.com/onosproject/onos-config/pkg/controller/utils"
	configurationctl "github.com/onosproject/onos-config/pkg/controller/v2/configuration"
	proposalctl "github.com/onosproject/onos-config/pkg/controller/v2/proposal"
	sb "github.com/onosproject/onos-config/pkg/southbound/gnmi"
	"github.com/onosproject/onos-config/pkg/store/topo"
	cfgstore "github.com/onosproject/onos-config/pkg/store/v2/configuration"
	proposalstore "github.com/onosproject/onos-config/pkg/store/v2/proposal"
	"github.com/onosproject/onos-lib-go/pkg/controller"
	"github.com/onosproject/onos-lib-go/pkg/errors"
	"github.com/openconfig/gnmi/proto/gnmi"
	"google.golang.org/grpc/codes"
	"google.golang.org/grpc/status"
)

// ---- device of target t1: contents over the leaves of the C03 universe

var (
	c04Dev    [cfgstore.VLeaves]bool
	c04DevVal [cfgstore.VLeaves]string
	c04Sets   int
	c04Refuse bool // the device refuses every Set (InvalidArgument)
)

type c04Conn struct{ sb.Conn }

func (c *c04Conn) ID() sb.ConnID { return "conn-1" }

// gNMI semantics of the device: deletes first (node and everything beneath it, at element boundaries), then updates
func (c *c04Conn) Set(ctx context.Context, r *gnmi.SetRequest) (*gnmi.SetResponse, error) {
	c04Sets++
	if c04Refuse {
		return nil, errors.FromGRPC(status.Error(codes.InvalidArgument, "refused by the device"))
	}
	for _, p := range r.Delete {
		for i := 0; i < cfgstore.VNP; i++ {
			if p != nil && verifSamePath(p.Elem, c03Elems(i)) {
				for j := 0; j < cfgstore.VLeaves; j++ {
					if cfgstore.VCovers(i, j) {
						c04Dev[j] = false
					}
				}
			}
		}
	}
	for _, u := range r.Update {
		for j := 0; j < cfgstore.VLeaves; j++ {
			if u != nil && u.Path != nil && verifSamePath(u.Path.Elem, c03Elems(j)) {
				c04Dev[j] = true
				c04DevVal[j] = u.Val.GetStringVal()
			}
		}
	}
	return &gnmi.SetResponse{}, nil
}

type c04Conns struct{ sb.ConnManager }

func (m *c04Conns) Get(ctx context.Context, id sb.ConnID) (sb.Conn, bool) {
	if id == "conn-1" {
		return &c04Conn{}, true
	}
	return nil, false
}

type c04Topo struct{ topo.Store }

func (s *c04Topo) Get(ctx context.Context, id topoapi.ID) (*topoapi.Object, error) {
	if id == "t1" {
		o := &topoapi.Object{ID: id, Type: topoapi.Object_ENTITY, Obj: &topoapi.Object_Entity{Entity: &topoapi.Entity{}}}
		_ = o.SetAspect(&topoapi.Configurable{Type: "ty", Version: "1"})
		return o, nil
	}
	if id == "conn-1" {
		return &topoapi.Object{ID: id, Type: topoapi.Object_RELATION, Obj: &topoapi.Object_Relation{Relation: &topoapi.Relation{
			KindID: topoapi.CONTROLS, SrcEntityID: controllerutils.GetOnosConfigID(), TgtEntityID: "t1"}}}, nil
	}
	return nil, errors.NewNotFound("object not found")
}

// VerifC04History: every Set of a history is committed AND applied to the connected device (real proposal commit and
// apply, real configuration store); then the device restarts empty, a new term begins and the real configuration
// controller re-pushes. The device must hold exactly the stored live leaves both before the restart and after the re-push.
func VerifC04History() {
	ctx := context.Background()
	store := cfgstore.NewStoreForVerif()
	cfgstore.VConfig = &configapi.Configuration{ID: cfgstore.VConfigID, TargetID: "t1"}
	cfgstore.VConfig.Revision = 1
	cfgstore.VConfig.Status.State = configapi.ConfigurationStatus_SYNCHRONIZED
	cfgstore.VConfig.Status.Mastership.Master = "conn-1"
	cfgstore.VConfig.Status.Mastership.Term = 1
	cfgstore.VConfig.Status.Applied.Mastership.Master = "conn-1"
	cfgstore.VConfig.Status.Applied.Mastership.Term = 1
	cfgstore.VConfigVer = 1
	srv := &Server{topo: &vTopo{}, pluginRegistry: &c03Registry{}, transactions: &vTxStore{}, configurations: store}
	vNEvents = 1
	vStates[0] = int32(configapi.TransactionStatus_APPLIED)
	h := verifrt.Param("sets")
	pr := proposalctl.NewReconcilerForVerif(&c04Topo{}, &c04Conns{}, &c03PropStore{}, store, &c03Registry{})
	for s := 1; s <= h+1; s++ {
		var op int
		combined := false
		val := "rr"
		if s <= h {
			nops := cfgstore.VNP + cfgstore.VLeaves
			if s == h {
				nops++ // the last applied Set may also be the request {delete /a, update /a/b/c}
			}
			op = verifrt.Fork("op"+"0123456789"[s:s+1], nops)
			if op == cfgstore.VNP+cfgstore.VLeaves {
				combined, op = true, cfgstore.VNP+0
			}
			val = verifrt.NondetStringN("val", 2, "v12")
		} else {
			// optionally one more Set (update of leaf 4 to a value nothing else writes) that the device REFUSES: it is
			// committed, its apply fails, and it must never reach the device, not even through the re-push
			if !verifrt.NondetBool("trailing-refused-set") {
				break
			}
			op = cfgstore.VNP + 4
			c04Refuse = true
		}
		node, del := op, true
		if op >= cfgstore.VNP {
			node, del = op-cfgstore.VNP, false
		}
		req := &gnmi.SetRequest{Prefix: &gnmi.Path{Target: "t1"}}
		if del {
			req.Delete = []*gnmi.Path{{Elem: c03Elems(node)}}
		} else {
			req.Update = []*gnmi.Update{{Path: &gnmi.Path{Elem: c03Elems(node)}, Val: &gnmi.TypedValue{Value: &gnmi.TypedValue_StringVal{StringVal: val}}}}
		}
		if combined {
			req.Delete = []*gnmi.Path{{Elem: c03Elems(6)}}
			for j := 0; j < cfgstore.VLeaves; j++ {
				if cfgstore.VCovers(6, j) {
					refLive[j] = false
				}
			}
		}
		vTx = nil
		_, err := srv.Set(ctx, req)
		verifrt.Assert(err == nil && vTx != nil, "set-accepted")
		if err != nil || vTx == nil {
			return
		}
		stamped := make(map[string]*configapi.PathValue)
		for p, v := range vTx.GetChange().Values["t1"].Values {
			v.Index = configapi.Index(s)
			stamped[p] = v
		}
		c03Prop = &configapi.Proposal{ID: proposalstore.NewID("t1", configapi.Index(s)), TargetID: "t1", TransactionIndex: configapi.Index(s),
			Details: &configapi.Proposal_Change{Change: &configapi.ChangeProposal{Values: stamped}}}
		c03Prop.TargetType, c03Prop.TargetVersion = "ty", "1"
		c03Initialize(pr)
		c03Prop.Status.PrevIndex = configapi.Index(s - 1)
		c03Prop.Status.Phases.Commit = &configapi.ProposalCommitPhase{}
		_, rerr := pr.Reconcile(controller.NewID(c03Prop.ID))
		verifrt.Assert(rerr == nil && c03Prop.Status.Phases.Commit.State == configapi.ProposalCommitPhase_COMMITTED, "commit-completes")
		c03Prop.Status.Phases.Apply = &configapi.ProposalApplyPhase{}
		_, rerr = pr.Reconcile(controller.NewID(c03Prop.ID))
		if c04Refuse {
			verifrt.Assert(rerr == nil && c03Prop.Status.Phases.Apply.State == configapi.ProposalApplyPhase_FAILED, "refused-apply-fails")
			c04Refuse = false
			verifrt.Cover("refused-set")
			break // the stored configuration restricted to the transactions whose apply did not fail: refLive unchanged
		}
		verifrt.Assert(rerr == nil && c03Prop.Status.Phases.Apply.State == configapi.ProposalApplyPhase_APPLIED, "apply-completes")
		for j := 0; j < cfgstore.VLeaves; j++ {
			if del && cfgstore.VCovers(node, j) {
				refLive[j] = false
			}
			if !del && node == j {
				refLive[j] = true
				c04RefVal[j] = val
			}
		}
	}
	verifrt.Cover("history-applied")
	for j := 0; j < cfgstore.VLeaves; j++ {
		verifrt.Assert(c04Dev[j] == refLive[j], "device-holds-exactly-the-stored-live-leaves")
		if c04Dev[j] && refLive[j] {
			verifrt.Assert(c04DevVal[j] == c04RefVal[j], "device-holds-the-stored-values")
		}
	}
	// the device restarts empty; the connection is re-established and a new mastership term begins
	for j := 0; j < cfgstore.VLeaves; j++ {
		c04Dev[j] = false
	}
	cfgstore.VConfig.Status.Mastership.Term = 2
	cr := configurationctl.NewReconcilerForVerif(&c04Topo{}, &c04Conns{}, store)
	id := controller.NewID(cfgstore.VConfigID)
	_, e1 := cr.Reconcile(id) // term increase noticed: SYNCHRONIZING
	_, e2 := cr.Reconcile(id) // re-push
	verifrt.Assert(e1 == nil && e2 == nil, "resync-runs")
	cfg, gerr := store.Get(ctx, cfgstore.VConfigID)
	verifrt.Assert(gerr == nil && cfg != nil && cfg.Status.State == configapi.ConfigurationStatus_SYNCHRONIZED && cfg.Status.Applied.Mastership.Term == 2, "resync-completes")
	verifrt.Cover("resynced")
	for j := 0; j < cfgstore.VLeaves; j++ {
		verifrt.Assert(c04Dev[j] == refLive[j], "after-restart-the-applied-configuration-is-pushed-again")
		if c04Dev[j] && refLive[j] {
			verifrt.Assert(c04DevVal[j] == c04RefVal[j], "after-restart-the-values-are-pushed-again")
		}
	}
}

var c04RefVal [cfgstore.VLeaves]string
