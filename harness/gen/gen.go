// Package verifgen holds input generators shared by several harnesses. The code is ordinary Go: it is executed
// symbolically by the engine (verifrt.Fork = case split enumerated by the driver, Nondet* = solver variables) and
// natively in replays.
package verifgen

import (
	"github.com/onosproject/onos-config/internal/verifrt"
	pb "github.com/openconfig/gnmi/proto/gnmi"
)

// Shape bounds a generated gNMI path: 1..MaxElems elements, 0..MaxKeys keys per element, names of 1..NameLen
// bytes over NameAlpha, key names of exactly one byte over KeyAlpha (pairwise distinct inside one element),
// key values of 1..ValLen bytes over ValAlpha. Lengths and counts are case-split, byte contents are symbolic.
type Shape struct {
	MaxElems, MaxKeys, NameLen, ValLen int
	NameAlpha, KeyAlpha, ValAlpha      string
}

func d(i int) string { return "0123456789"[i : i+1] }

// Elems generates the elements of a path.
func Elems(tag string, sh Shape) []*pb.PathElem {
	n := verifrt.Fork(tag+".nelem", sh.MaxElems) + 1
	elems := make([]*pb.PathElem, 0, 4)
	for i := 0; i < n; i++ {
		t := tag + ".e" + d(i)
		nl := verifrt.Fork(t+".namelen", sh.NameLen) + 1
		e := &pb.PathElem{Name: verifrt.NondetStringN(t+".name", nl, sh.NameAlpha)}
		nk := 0
		if sh.MaxKeys > 0 {
			nk = verifrt.Fork(t+".nkeys", sh.MaxKeys+1)
		}
		if nk > 0 {
			e.Key = make(map[string]string)
			var prev string
			for k := 0; k < nk; k++ {
				kn := verifrt.NondetStringN(t+".k"+d(k)+".name", 1, sh.KeyAlpha)
				if k > 0 {
					// distinct key names; ordered to break the symmetry between the two slots
					verifrt.Assume(prev[0] < kn[0])
				}
				prev = kn
				vl := verifrt.Fork(t+".k"+d(k)+".vallen", sh.ValLen) + 1
				e.Key[kn] = verifrt.NondetStringN(t+".k"+d(k)+".val", vl, sh.ValAlpha)
			}
		}
		elems = append(elems, e)
	}
	return elems
}

// SameElems compares two element lists: names and complete key maps.
func SameElems(a, b []*pb.PathElem) bool {
	if len(a) != len(b) {
		return false
	}
	for i := range a {
		if a[i] == nil || b[i] == nil {
			return false
		}
		if a[i].Name != b[i].Name || len(a[i].Key) != len(b[i].Key) {
			return false
		}
		for k, v := range a[i].Key {
			w, ok := b[i].Key[k]
			if !ok || w != v {
				return false
			}
		}
	}
	return true
}
