//go:build verif

package gnmi

import (
	"context"

	"github.com/onosproject/onos-api/go/onos/config/admin"
	configapi "github.com/onosproject/onos-api/go/onos/config/v2"
	"github.com/onosproject/onos-config/internal/verifrt"
	proposalctl "github.com/onosproject/onos-config/pkg/controller/v2/proposal"
	"github.com/onosproject/onos-config/pkg/pluginregistry"
	cfgstore "github.com/onosproject/onos-config/pkg/store/v2/configuration"
	proposalstore "github.com/onosproject/onos-config/pkg/store/v2/proposal"
	pathutils "github.com/onosproject/onos-config/pkg/utils/path"
	"github.com/onosproject/onos-lib-go/pkg/controller"
	"github.com/onosproject/onos-lib-go/pkg/errors"
	"github.com/openconfig/gnmi/proto/gnmi"
)

// ---- model plugin of the C03 universe

type c03Plugin struct{ pluginregistry.ModelPlugin }

func (p *c03Plugin) GetInfo() *pluginregistry.ModelPluginInfo {
	return &pluginregistry.ModelPluginInfo{
		Info: admin.ModelInfo{Name: "ty", Version: "1"},
		ReadWritePaths: pathutils.ReadWritePathMap{
			"/a/b/c":    admin.ReadWritePath{ValueType: configapi.ValueType_STRING},
			"/a/bc":     admin.ReadWritePath{ValueType: configapi.ValueType_STRING},
			"/a/b-x":    admin.ReadWritePath{ValueType: configapi.ValueType_STRING},
			"/l[k=*]/x": admin.ReadWritePath{ValueType: configapi.ValueType_STRING},
			"/l[k=*]/k": admin.ReadWritePath{ValueType: configapi.ValueType_STRING, IsAKey: true, AttrName: "k"},
		},
	}
}

type c03Registry struct{ pluginregistry.PluginRegistry }

func (r *c03Registry) GetPlugin(model configapi.TargetType, version configapi.TargetVersion) (pluginregistry.ModelPlugin, bool) {
	return &c03Plugin{}, model == "ty" && version == "1"
}

// ---- proposal store: the single proposal being committed

var c03Prop *configapi.Proposal

type c03PropStore struct{ proposalstore.Store }

func (s *c03PropStore) Get(ctx context.Context, id configapi.ProposalID) (*configapi.Proposal, error) {
	if c03Prop == nil || c03Prop.ID != id {
		return nil, errors.NewNotFound("proposal not found")
	}
	p := *c03Prop
	return &p, nil
}

func (s *c03PropStore) UpdateStatus(ctx context.Context, p *configapi.Proposal) error {
	c := *p
	c03Prop = &c
	return nil
}

func c03Elems(i int) []*gnmi.PathElem {
	switch i {
	case 0:
		return []*gnmi.PathElem{{Name: "a"}, {Name: "b"}, {Name: "c"}}
	case 1:
		return []*gnmi.PathElem{{Name: "a"}, {Name: "bc"}}
	case 2:
		return []*gnmi.PathElem{{Name: "a"}, {Name: "b-x"}}
	case 3:
		return []*gnmi.PathElem{{Name: "l", Key: map[string]string{"k": "1"}}, {Name: "x"}}
	case 4:
		return []*gnmi.PathElem{{Name: "l", Key: map[string]string{"k": "10"}}, {Name: "x"}}
	case 5:
		return []*gnmi.PathElem{{Name: "a"}, {Name: "b"}}
	case 6:
		return []*gnmi.PathElem{{Name: "a"}}
	}
	return []*gnmi.PathElem{{Name: "l", Key: map[string]string{"k": "1"}}}
}

// reference gNMI state machine on parsed elements
var (
	refLive [cfgstore.VLeaves]bool
	refVal  [cfgstore.VLeaves]uint8
)

// query universe: exact leaves, containers, a list entry leaf, a key wildcard
const c03NQ = 7

func c03Query(q int) []*gnmi.PathElem {
	switch q {
	case 0:
		return c03Elems(0)
	case 1:
		return c03Elems(1)
	case 2:
		return c03Elems(5) // container /a/b
	case 3:
		return c03Elems(6) // container /a
	case 4:
		return c03Elems(3)
	case 5:
		return []*gnmi.PathElem{{Name: "l", Key: map[string]string{"k": "*"}}, {Name: "x"}}
	}
	return []*gnmi.PathElem{{Name: "l", Key: map[string]string{"k": "1"}}}
}

// does query q address leaf j (at element boundaries)?
func c03Matches(q, j int) bool {
	switch q {
	case 0:
		return j == 0
	case 1:
		return j == 1
	case 2:
		return j == 0
	case 3:
		return j == 0 || j == 1 || j == 2
	case 4:
		return j == 3
	case 5:
		return j == 3 || j == 4
	}
	return j == 3
}

// VerifC03History: h Sets (one symbolic operation each: update of a leaf or delete of a leaf / container) go through
// the real Set handler, the real proposal commit (AddDeleteChildren, applyChangeToConfig), the real configuration
// store over stub maps and are read back by the real Get handler with a symbolic query.
func VerifC03History() {
	ctx := context.Background()
	store := cfgstore.NewStoreForVerif()
	// the (empty) configuration of t1 exists
	cfgstore.VConfig = &configapi.Configuration{ID: cfgstore.VConfigID, TargetID: "t1"}
	cfgstore.VConfig.Revision = 1
	cfgstore.VConfigVer = 1
	srv := &Server{topo: &vTopo{}, pluginRegistry: &c03Registry{}, transactions: &vTxStore{}, configurations: store}
	vNEvents = 1
	vStates[0] = int32(configapi.TransactionStatus_APPLIED)
	h := verifrt.Param("sets")
	for s := 1; s <= h+1; s++ {
		// the operation shape is case-split (paths stay concrete); written values are symbolic
		var op int
		trailing := 0
		if s <= h {
			op = verifrt.Fork("op"+"0123456789"[s:s+1], cfgstore.VNP+cfgstore.VLeaves)
		} else {
			// optionally one more Set of a fixed shape: (1) update of leaf 4 - whatever the history, a later unrelated
			// Set re-reads and re-writes the whole stored configuration; (2) ONE request that deletes /a and updates
			// /a/b/c beneath it: gNMI processes the deletes of a request before its updates
			if verifrt.Param("onlycombined") == 1 {
				trailing = 2 // the run with reversed map ranges: only the request with two operations depends on an order
			} else {
				trailing = verifrt.Fork("trailing", 3)
			}
			if trailing == 0 {
				break
			}
			op = cfgstore.VNP + 4
			if trailing == 2 {
				op = cfgstore.VNP + 0
			}
		}
		node, del := op, true
		if op >= cfgstore.VNP {
			node, del = op-cfgstore.VNP, false // update of a leaf
		}
		var elems []*gnmi.PathElem
		for i := 0; i < cfgstore.VNP; i++ {
			if node == i {
				elems = c03Elems(i)
			}
		}
		req := &gnmi.SetRequest{Prefix: &gnmi.Path{Target: "t1"}}
		tag := uint8(s)
		if verifrt.NondetBool("same-value") && s > 1 {
			tag = uint8(s - 1) // the same value as the previous Set wrote
		}
		if del {
			req.Delete = []*gnmi.Path{{Elem: elems}}
		} else {
			tv := cfgstore.VValue(tag)
			req.Update = []*gnmi.Update{{Path: &gnmi.Path{Elem: elems}, Val: &gnmi.TypedValue{Value: &gnmi.TypedValue_StringVal{StringVal: string(tv.Bytes)}}}}
		}
		if trailing == 2 {
			req.Delete = []*gnmi.Path{{Elem: c03Elems(6)}}
			for j := 0; j < cfgstore.VLeaves; j++ {
				if cfgstore.VCovers(6, j) {
					refLive[j] = false
				}
			}
		}
		vTx = nil
		_, err := srv.Set(ctx, req)
		verifrt.Assert(err == nil && vTx != nil, "set-accepted")
		if err != nil || vTx == nil {
			return
		}
		// transaction reconcileInitialize: the change values are stamped with the log index
		values := vTx.GetChange().Values["t1"].Values
		stamped := make(map[string]*configapi.PathValue)
		for p, v := range values {
			v.Index = configapi.Index(s)
			stamped[p] = v
		}
		c03Prop = &configapi.Proposal{ID: proposalstore.NewID("t1", configapi.Index(s)), TargetID: "t1", TransactionIndex: configapi.Index(s),
			Details: &configapi.Proposal_Change{Change: &configapi.ChangeProposal{Values: stamped}}}
		c03Prop.TargetType, c03Prop.TargetVersion = "ty", "1"
		r := proposalctl.NewReconcilerForVerif(nil, nil, &c03PropStore{}, store, nil)
		// the proposal's real Initialize phase (a status write of the configuration), then its Commit phase
		c03Initialize(r)
		c03Prop.Status.PrevIndex = configapi.Index(s - 1)
		c03Prop.Status.Phases.Commit = &configapi.ProposalCommitPhase{}
		_, rerr := r.Reconcile(controller.NewID(c03Prop.ID))
		verifrt.Assert(rerr == nil && c03Prop.Status.Phases.Commit.State == configapi.ProposalCommitPhase_COMMITTED, "commit-completes")
		// reference: a delete removes the addressed node and everything beneath it; an update sets the leaf
		for j := 0; j < cfgstore.VLeaves; j++ {
			for i := 0; i < cfgstore.VNP; i++ {
				if node == i {
					if del && cfgstore.VCovers(i, j) {
						refLive[j] = false
					}
					if !del && i == j {
						refLive[j], refVal[j] = true, tag
					}
				}
			}
		}
	}
	verifrt.Cover("history-done")
	// one Get with a query of the query universe, PROTO encoding
	q := verifrt.Fork("query", c03NQ)
	var qe []*gnmi.PathElem
	for k := 0; k < c03NQ; k++ {
		if q == k {
			qe = c03Query(k)
		}
	}
	// the queried path may be split between the request prefix and the path: nothing / the first element / every element
	// in the prefix (a path with no elements of its own)
	gp, gq := &gnmi.Path{Target: "t1"}, &gnmi.Path{Elem: qe}
	split := 0
	if verifrt.Param("getsplit") == 1 {
		split = verifrt.Fork("get.split", 3)
	}
	switch split {
	case 1:
		gp.Elem, gq.Elem = qe[:1], qe[1:]
	case 2:
		gp.Elem, gq.Elem = qe, nil
	}
	resp, err := srv.Get(ctx, &gnmi.GetRequest{Prefix: gp, Path: []*gnmi.Path{gq}, Encoding: gnmi.Encoding_PROTO})
	verifrt.Assert(err == nil && resp != nil && len(resp.Notification) == 1, "get-answers")
	if err != nil || resp == nil || len(resp.Notification) != 1 {
		return
	}
	verifrt.Cover("get-done")
	ups := resp.Notification[0].Update
	for j := 0; j < cfgstore.VLeaves; j++ {
		n := 0
		valOK := true
		for _, u := range ups {
			if u.Val != nil && u.Path != nil && verifSamePath(u.Path.Elem, c03Elems(j)) {
				n++
				want := cfgstore.VValue(refVal[j])
				valOK = valOK && u.Val.GetStringVal() == string(want.Bytes)
			}
		}
		want := 0
		for k := 0; k < c03NQ; k++ {
			if q == k && c03Matches(k, j) && refLive[j] {
				want = 1
			}
		}
		verifrt.Assert(n == want, "get-returns-exactly-the-live-leaves-addressed-at-element-boundaries")
		if n == 1 && want == 1 {
			verifrt.Assert(valOK, "get-returns-the-last-written-value")
		}
	}
}

// c03Initialize runs the real reconcileInitialize of c03Prop to completion (status write, then INITIALIZED)
func c03Initialize(r *proposalctl.Reconciler) {
	c03Prop.Status.Phases.Initialize = &configapi.ProposalInitializePhase{}
	for k := 0; k < 2; k++ {
		_, err := r.Reconcile(controller.NewID(c03Prop.ID))
		verifrt.Assert(err == nil, "initialize-step-succeeds")
	}
	verifrt.Assert(c03Prop.Status.Phases.Initialize.State == configapi.ProposalInitializePhase_INITIALIZED, "initialize-completes")
}

func verifSamePath(a, b []*gnmi.PathElem) bool {
	if len(a) != len(b) {
		return false
	}
	for i := range a {
		if a[i].Name != b[i].Name || len(a[i].Key) != len(b[i].Key) {
			return false
		}
		for k, v := range a[i].Key {
			if b[i].Key[k] != v {
				return false
			}
		}
	}
	return true
}
