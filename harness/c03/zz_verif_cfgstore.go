//go:build verif

package configuration

// The REAL configurationStore (Get/Create/Update/UpdateStatus/populate/store) over stub atomix maps whose state is a
// flat per-path vector (DESIGN.md section 5). The stubs implement the documented primitive contract: Get/List,
// transactional Insert/Update/Remove with IfVersion, NotFound/AlreadyExists/Conflict.

import (
	"context"
	"io"

	atomixerrors "github.com/atomix/atomix/api/errors"
	"github.com/atomix/go-sdk/pkg/primitive"
	_map "github.com/atomix/go-sdk/pkg/primitive/map"
	configapi "github.com/onosproject/onos-api/go/onos/config/v2"
	"github.com/onosproject/onos-config/internal/verifrt"
)

// universe of stored paths of target t1
// leaves 0..4, then the containers / the list entry that can only be stored as tombstones
const (
	VNP     = 8
	VLeaves = 5
)

func VPath(i int) string {
	switch i {
	case 0:
		return "/a/b/c"
	case 1:
		return "/a/bc"
	case 2:
		return "/a/b-x"
	case 3:
		return "/l[k=1]/x"
	case 4:
		return "/l[k=10]/x"
	case 5:
		return "/a/b"
	case 6:
		return "/a"
	}
	return "/l[k=1]"
}

// VCovers: node i is node j or an element-boundary ancestor of it (from the parsed elements)
func VCovers(i, j int) bool {
	if i == j {
		return true
	}
	switch i {
	case 5:
		return j == 0
	case 6:
		return j == 0 || j == 1 || j == 2 || j == 5
	case 7:
		return j == 3
	}
	return false
}

func VSlot(key string) int {
	for i := 0; i < VNP; i++ {
		if key == VPath(i) {
			return i
		}
	}
	return -1
}

// VCell is one entry of a stub "configurations-<id>" map
type VCell struct {
	Present bool
	Version uint64
	Deleted bool
	Index   uint64
	Val     [2]byte // the stored (2-byte) value
}

// the atomix namespace of path-value maps: a primitive is identified by its NAME alone, so the store's committed and
// applied maps are two primitives exactly when the real getTarget gives them two names
const VNames = 2

var (
	VMapNames  [VNames]string
	VMapCells  [VNames][VNP]VCell
	VConfig    *configapi.Configuration // the configuration record (without values), nil = not created
	VConfigVer uint64
)

const VConfigID = configapi.ConfigurationID("t1-ty-1")

// VValue: the 2-byte value "v<tag>" used by the harnesses that write tagged values
func VValue(tag uint8) configapi.TypedValue {
	return *configapi.NewTypedValueString("v" + "0123456789"[tag:tag+1])
}

func vCellValue(b [2]byte) configapi.TypedValue {
	return *configapi.NewTypedValueString(string(b[:]))
}

type vEntry = _map.Entry[string, *configapi.PathValue]

func vMkEntry(cells *[VNP]VCell, i int) *vEntry {
	e := &vEntry{Key: VPath(i)}
	e.Version = primitive.Version(cells[i].Version)
	pv := &configapi.PathValue{Path: VPath(i), Deleted: cells[i].Deleted, Index: configapi.Index(cells[i].Index)}
	if !pv.Deleted {
		pv.Value = vCellValue(cells[i].Val)
	}
	e.Value = pv
	return e
}

type vStream struct {
	entries []*vEntry
	pos     int
}

func (s *vStream) Next() (*vEntry, error) {
	if s.pos >= len(s.entries) {
		return nil, io.EOF
	}
	e := s.entries[s.pos]
	s.pos++
	return e, nil
}

type vPVMap struct {
	_map.Map[string, *configapi.PathValue]
	cells *[VNP]VCell
}

func (m *vPVMap) Get(ctx context.Context, key string, opts ..._map.GetOption) (*vEntry, error) {
	i := VSlot(key)
	if i < 0 || !m.cells[i].Present {
		return nil, atomixerrors.NewNotFound("key not found")
	}
	return vMkEntry(m.cells, i), nil
}

func (m *vPVMap) List(ctx context.Context) (_map.EntryStream[string, *configapi.PathValue], error) {
	var es []*vEntry
	for i := 0; i < VNP; i++ {
		if m.cells[i].Present {
			es = append(es, vMkEntry(m.cells, i))
		}
	}
	return &vStream{entries: es}, nil
}

type vOp struct {
	kind    int // 0 insert, 1 update, 2 remove
	slot    int
	version uint64
	deleted bool
	index   uint64
	val     [2]byte
}

type vTxn struct {
	_map.Transaction[string, *configapi.PathValue]
	cells *[VNP]VCell
	ops   []vOp
}

func (m *vPVMap) Transaction(ctx context.Context) _map.Transaction[string, *configapi.PathValue] {
	return &vTxn{cells: m.cells}
}

func vTag(pv *configapi.PathValue) [2]byte {
	var b [2]byte
	if pv == nil || pv.Deleted || len(pv.Value.Bytes) != 2 {
		return b
	}
	b[0], b[1] = pv.Value.Bytes[0], pv.Value.Bytes[1]
	return b
}

func (t *vTxn) Insert(key string, value *configapi.PathValue, opts ..._map.InsertOption) _map.Transaction[string, *configapi.PathValue] {
	t.ops = append(t.ops, vOp{kind: 0, slot: VSlot(key), deleted: value.Deleted, index: uint64(value.Index), val: vTag(value)})
	return t
}

func (t *vTxn) Update(key string, value *configapi.PathValue, opts ..._map.UpdateOption) _map.Transaction[string, *configapi.PathValue] {
	var ver uint64
	for _, o := range opts {
		ver = verifrt.FieldUint64(o, "version")
	}
	t.ops = append(t.ops, vOp{kind: 1, slot: VSlot(key), version: ver, deleted: value.Deleted, index: uint64(value.Index), val: vTag(value)})
	return t
}

func (t *vTxn) Remove(key string, opts ..._map.RemoveOption) _map.Transaction[string, *configapi.PathValue] {
	var ver uint64
	for _, o := range opts {
		ver = verifrt.FieldUint64(o, "version")
	}
	t.ops = append(t.ops, vOp{kind: 2, slot: VSlot(key), version: ver})
	return t
}

func (t *vTxn) Commit() ([]*vEntry, error) {
	for _, op := range t.ops {
		if op.slot < 0 {
			return nil, atomixerrors.NewInvalid("unknown key")
		}
		c := &t.cells[op.slot]
		switch op.kind {
		case 0:
			if c.Present {
				return nil, atomixerrors.NewAlreadyExists("exists")
			}
		default:
			if !c.Present {
				return nil, atomixerrors.NewNotFound("missing")
			}
			if c.Version != op.version {
				return nil, atomixerrors.NewConflict("version")
			}
		}
	}
	for _, op := range t.ops {
		c := &t.cells[op.slot]
		switch op.kind {
		case 0:
			*c = VCell{Present: true, Version: 1, Deleted: op.deleted, Index: op.index, Val: op.val}
		case 1:
			c.Deleted, c.Index, c.Val = op.deleted, op.index, op.val
			c.Version++
		case 2:
			c.Present = false
		}
	}
	return nil, nil
}

// vCloneCfg: the record map holds the MARSHALLED configuration: a write snapshots the record including whatever value
// maps are still embedded in it, a read returns a fresh copy
func vCloneCfg(v *configapi.Configuration) *configapi.Configuration {
	c := *v
	c.Values = vClonePVs(v.Values)
	c.Status.Applied.Values = vClonePVs(v.Status.Applied.Values)
	return &c
}

func vClonePVs(m map[string]*configapi.PathValue) map[string]*configapi.PathValue {
	if len(m) == 0 {
		return nil
	}
	out := make(map[string]*configapi.PathValue)
	for i := 0; i < VNP; i++ {
		if pv, ok := m[VPath(i)]; ok && pv != nil {
			c := *pv
			out[VPath(i)] = &c
		}
	}
	return out
}

// the "configurations" map: one record
type vCfgMap struct {
	_map.Map[configapi.ConfigurationID, *configapi.Configuration]
}

type vCfgEntry = _map.Entry[configapi.ConfigurationID, *configapi.Configuration]

func (m *vCfgMap) Get(ctx context.Context, key configapi.ConfigurationID, opts ..._map.GetOption) (*vCfgEntry, error) {
	if key != VConfigID || VConfig == nil {
		return nil, atomixerrors.NewNotFound("configuration not found")
	}
	e := &vCfgEntry{Key: key}
	e.Value = vCloneCfg(VConfig)
	e.Version = primitive.Version(VConfigVer)
	return e, nil
}

func (m *vCfgMap) Insert(ctx context.Context, key configapi.ConfigurationID, value *configapi.Configuration, opts ..._map.InsertOption) (*vCfgEntry, error) {
	if VConfig != nil {
		return nil, atomixerrors.NewAlreadyExists("configuration exists")
	}
	VConfig = vCloneCfg(value)
	VConfigVer = 1
	e := &vCfgEntry{Key: key}
	e.Value = value
	e.Version = 1
	return e, nil
}

// Put: the unconditional write of the atomix map (create or overwrite)
func (m *vCfgMap) Put(ctx context.Context, key configapi.ConfigurationID, value *configapi.Configuration, opts ..._map.PutOption) (*vCfgEntry, error) {
	if key != VConfigID {
		return nil, atomixerrors.NewInvalid("unknown key")
	}
	VConfig = vCloneCfg(value)
	VConfigVer++
	e := &vCfgEntry{Key: key}
	e.Value = value
	e.Version = primitive.Version(VConfigVer)
	return e, nil
}

func (m *vCfgMap) Update(ctx context.Context, key configapi.ConfigurationID, value *configapi.Configuration, opts ..._map.UpdateOption) (*vCfgEntry, error) {
	if key != VConfigID || VConfig == nil {
		return nil, atomixerrors.NewNotFound("configuration not found")
	}
	for _, o := range opts {
		if verifrt.FieldUint64(o, "version") != VConfigVer {
			return nil, atomixerrors.NewConflict("version")
		}
	}
	VConfig = vCloneCfg(value)
	VConfigVer++
	e := &vCfgEntry{Key: key}
	e.Value = value
	e.Version = primitive.Version(VConfigVer)
	return e, nil
}

// VerifNamedMap is what the SDK's map builder resolves to in the symbolic run (engine cut atomix-map-by-name on
// mapBuilder.Get): the stub primitive bound to that name, created on first use.
func VerifNamedMap(name string) _map.Map[string, *configapi.PathValue] {
	for i := 0; i < VNames; i++ {
		if VMapNames[i] == "" {
			VMapNames[i] = name
		}
		if VMapNames[i] == name {
			return &vPVMap{cells: &VMapCells[i]}
		}
	}
	verifrt.Assert(false, "harness: more distinct path-value primitives than modelled")
	return nil
}

// NewStoreForVerif: the real store type; the record map is a stub, the path-value maps are resolved by the REAL
// getTarget through the SDK builder (symbolic run: VerifNamedMap; native replay: the atomix in-memory test client).
func NewStoreForVerif() Store {
	return &configurationStore{
		client:         vClient(),
		configurations: &vCfgMap{},
		committed:      make(map[configapi.ConfigurationID]_map.Map[string, *configapi.PathValue]),
		applied:        make(map[configapi.ConfigurationID]_map.Map[string, *configapi.PathValue]),
	}
}

// VerifC15Configuration: two writers of the same configuration version: the second gets a conflict and the record keeps the
// first writer's status; record versions grow.
func VerifC15Configuration() {
	ctx := context.Background()
	s := NewStoreForVerif()
	VConfig = &configapi.Configuration{ID: VConfigID, TargetID: "t1"}
	VConfig.Revision = 1
	v0 := verifrt.NondetUint64("version")
	verifrt.Assume(v0 >= 1 && v0 < 1000)
	VConfigVer = v0
	a, errA := s.Get(ctx, VConfigID)
	b, errB := s.Get(ctx, VConfigID)
	verifrt.Assert(errA == nil && errB == nil && a != nil && b != nil && a.Version == v0 && b.Version == v0, "readers-see-the-stored-version")
	if errA != nil || errB != nil || a == nil || b == nil {
		return
	}
	a.Status.Committed.Index = configapi.Index(verifrt.NondetUint64("committed.a"))
	b.Status.Committed.Index = configapi.Index(verifrt.NondetUint64("committed.b"))
	var e1, e2 error
	if verifrt.Fork("op1", 2) == 0 {
		e1 = s.Update(ctx, a)
	} else {
		e1 = s.UpdateStatus(ctx, a)
	}
	if verifrt.Fork("op2", 2) == 0 {
		e2 = s.Update(ctx, b)
	} else {
		e2 = s.UpdateStatus(ctx, b)
	}
	verifrt.Cover("two-writers")
	verifrt.Assert(e1 == nil && a.Version > v0, "first-writer-succeeds-and-the-version-grows")
	verifrt.Assert(e2 != nil, "second-writer-of-the-same-version-is-refused")
	verifrt.Assert(VConfig != nil && VConfig.Status.Committed.Index == a.Status.Committed.Index && VConfigVer == v0+1, "the-lost-update-left-no-trace-in-the-record")
	// a late Create of an existing record (a writer that read "not found" before the other one created it) is refused and
	// leaves the record, its version and its indexes alone
	late := &configapi.Configuration{ID: VConfigID, TargetID: "t1"}
	ec := s.Create(ctx, late)
	verifrt.Assert(ec != nil, "create-of-an-existing-record-is-refused")
	verifrt.Assert(VConfig != nil && VConfig.Status.Committed.Index == a.Status.Committed.Index && VConfigVer == v0+1, "refused-create-leaves-the-record-alone")
}
