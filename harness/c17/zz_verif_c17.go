//go:build verif

package values

import (
	"fmt"

	adminapi "github.com/onosproject/onos-api/go/onos/config/admin"
	configapi "github.com/onosproject/onos-api/go/onos/config/v2"
	"github.com/onosproject/onos-config/internal/verifrt"
	"github.com/onosproject/onos-config/pkg/utils/v2/tree"
	gnmi "github.com/openconfig/gnmi/proto/gnmi"
)

// model type options of the leaf: absent, or a width of 8/16/32/64 bits
func vModelPath() (*adminapi.ReadWritePath, int) {
	w := verifrt.Fork("width", 5)
	rw := &adminapi.ReadWritePath{}
	width := 32 // the default the conversion assumes
	switch w {
	case 1:
		width = 8
	case 2:
		width = 16
	case 3:
		width = 32
	case 4:
		width = 64
	}
	if w != 0 {
		rw.TypeOpts = []uint64{uint64(width)}
	}
	return rw, width
}

// the value as stored -> southbound update and PROTO Get value (both use NativeTypeToGnmiTypedValue); JSON typing
func vRoundTrip(in *gnmi.TypedValue, rw *adminapi.ReadWritePath) (*configapi.TypedValue, *gnmi.TypedValue, *gnmi.TypedValue) {
	native, err := GnmiTypedValueToNativeType(in, rw)
	verifrt.Assert(err == nil && native != nil, "value-accepted")
	if err != nil || native == nil {
		return nil, nil, nil
	}
	back, err := NativeTypeToGnmiTypedValue(native)
	verifrt.Assert(err == nil && back != nil, "value-converts-back")
	req, err := PathValuesToGnmiChange([]*configapi.PathValue{{Path: "/x", Value: *native}}, "t1")
	var sbv *gnmi.TypedValue
	if err == nil && req != nil && len(req.Update) == 1 {
		sbv = req.Update[0].Val
	}
	verifrt.Assert(sbv != nil, "southbound-update-built")
	return native, back, sbv
}

func vJSONIsString(native *configapi.TypedValue, rfc bool) bool {
	doc, err := tree.BuildTree([]*configapi.PathValue{{Path: "/x", Value: *native}}, rfc)
	verifrt.Assert(err == nil, "tree-builds")
	if err != nil {
		return false
	}
	root, ok := verifrt.JSONValue(doc).(map[string]interface{})
	verifrt.Assert(ok, "document-is-an-object")
	if !ok {
		return false
	}
	str, isStr := root["x"].(string)
	vLastJSONString = str
	return isStr
}

// the JSON string of the leaf seen by the last vJSONIsString
var vLastJSONString string

// VerifC17Int: int64 values of every width survive; RFC 7951: 64-bit integers are JSON strings
func VerifC17Int() {
	rw, width := vModelPath()
	v := verifrt.NondetInt64("v")
	native, back, sbv := vRoundTrip(&gnmi.TypedValue{Value: &gnmi.TypedValue_IntVal{IntVal: v}}, rw)
	if native == nil || back == nil || sbv == nil {
		return
	}
	verifrt.Cover("converted")
	b, ok := back.Value.(*gnmi.TypedValue_IntVal)
	verifrt.Assert(ok && b.IntVal == v, "int-value-returned-unchanged")
	s, ok := sbv.Value.(*gnmi.TypedValue_IntVal)
	verifrt.Assert(ok && s.IntVal == v, "int-value-sent-unchanged")
	rfc := verifrt.NondetBool("rfc7951")
	isStr := vJSONIsString(native, rfc)
	verifrt.Assert(isStr == (rfc && width > 32), "int-json-type")
	if isStr {
		verifrt.Assert(vLastJSONString == fmt.Sprintf("%d", v), "int-json-text-is-the-decimal-of-the-value")
	}
}

// VerifC17Uint
func VerifC17Uint() {
	rw, width := vModelPath()
	v := verifrt.NondetUint64("v")
	native, back, sbv := vRoundTrip(&gnmi.TypedValue{Value: &gnmi.TypedValue_UintVal{UintVal: v}}, rw)
	if native == nil || back == nil || sbv == nil {
		return
	}
	verifrt.Cover("converted")
	b, ok := back.Value.(*gnmi.TypedValue_UintVal)
	verifrt.Assert(ok && b.UintVal == v, "uint-value-returned-unchanged")
	s, ok := sbv.Value.(*gnmi.TypedValue_UintVal)
	verifrt.Assert(ok && s.UintVal == v, "uint-value-sent-unchanged")
	rfc := verifrt.NondetBool("rfc7951")
	isStr := vJSONIsString(native, rfc)
	verifrt.Assert(isStr == (rfc && width > 32), "uint-json-type")
	if isStr {
		verifrt.Assert(vLastJSONString == fmt.Sprintf("%d", v), "uint-json-text-is-the-decimal-of-the-value")
	}
}

// VerifC17Scalars: string / ascii / bool / bytes / decimal64
func VerifC17Scalars() {
	// the model entry of the leaf may carry type options (a width, fraction digits, ...): they never change these values
	rw := &adminapi.ReadWritePath{}
	switch verifrt.Fork("typeopts", 3) {
	case 1:
		rw.TypeOpts = []uint64{verifrt.NondetUint64("opt0")}
	case 2:
		rw.TypeOpts = []uint64{verifrt.NondetUint64("opt0"), verifrt.NondetUint64("opt1")}
	}
	switch verifrt.Fork("kind", 5) {
	case 0:
		s := verifrt.NondetString("s", 3, "a1\"")
		_, back, sbv := vRoundTrip(&gnmi.TypedValue{Value: &gnmi.TypedValue_StringVal{StringVal: s}}, rw)
		if back != nil && sbv != nil {
			verifrt.Cover("converted")
			verifrt.Assert(back.GetStringVal() == s && sbv.GetStringVal() == s, "string-value-unchanged")
		}
	case 1:
		s := verifrt.NondetString("s", 3, "a1\"")
		_, back, sbv := vRoundTrip(&gnmi.TypedValue{Value: &gnmi.TypedValue_AsciiVal{AsciiVal: s}}, rw)
		if back != nil && sbv != nil {
			verifrt.Cover("converted")
			verifrt.Assert(back.GetStringVal() == s && sbv.GetStringVal() == s, "ascii-value-unchanged")
		}
	case 2:
		b := verifrt.NondetBool("b")
		native, back, sbv := vRoundTrip(&gnmi.TypedValue{Value: &gnmi.TypedValue_BoolVal{BoolVal: b}}, rw)
		if back != nil && sbv != nil {
			verifrt.Cover("converted")
			x, ok := back.Value.(*gnmi.TypedValue_BoolVal)
			y, ok2 := sbv.Value.(*gnmi.TypedValue_BoolVal)
			verifrt.Assert(ok && ok2 && x.BoolVal == b && y.BoolVal == b, "bool-value-unchanged")
			verifrt.Assert(!vJSONIsString(native, true), "bool-json-type")
		}
	case 3:
		s := verifrt.NondetString("bytes", 3, "\x00a\xff")
		_, back, sbv := vRoundTrip(&gnmi.TypedValue{Value: &gnmi.TypedValue_BytesVal{BytesVal: []byte(s)}}, rw)
		if back != nil && sbv != nil {
			verifrt.Cover("converted")
			verifrt.Assert(string(back.GetBytesVal()) == s && string(sbv.GetBytesVal()) == s, "bytes-value-unchanged")
		}
	case 4:
		d := verifrt.NondetInt64("digits")
		p := verifrt.NondetUint32("precision")
		verifrt.Assume(p <= 18)
		native, back, sbv := vRoundTrip(&gnmi.TypedValue{Value: &gnmi.TypedValue_DecimalVal{DecimalVal: &gnmi.Decimal64{Digits: d, Precision: p}}}, rw)
		if back != nil && sbv != nil {
			verifrt.Cover("converted")
			x, y := back.GetDecimalVal(), sbv.GetDecimalVal()
			verifrt.Assert(x != nil && y != nil && x.Digits == d && x.Precision == p && y.Digits == d && y.Precision == p, "decimal-value-unchanged")
			_ = native
		}
	}
}

// VerifC17LeafListUint: a leaf-list of two uint64 elements of every width survives the journey; under RFC 7951 the
// elements of a 64-bit leaf-list are JSON strings holding the decimal text of the UNSIGNED value
func VerifC17LeafListUint() {
	rw, width := vModelPath()
	v0, v1 := verifrt.NondetUint64("v0"), verifrt.NondetUint64("v1")
	in := &gnmi.TypedValue{Value: &gnmi.TypedValue_LeaflistVal{LeaflistVal: &gnmi.ScalarArray{Element: []*gnmi.TypedValue{
		{Value: &gnmi.TypedValue_UintVal{UintVal: v0}}, {Value: &gnmi.TypedValue_UintVal{UintVal: v1}}}}}}
	native, back, sbv := vRoundTrip(in, rw)
	if native == nil || back == nil || sbv == nil {
		return
	}
	verifrt.Cover("converted")
	for _, out := range []*gnmi.TypedValue{back, sbv} {
		ll, ok := out.Value.(*gnmi.TypedValue_LeaflistVal)
		verifrt.Assert(ok && ll.LeaflistVal != nil && len(ll.LeaflistVal.Element) == 2, "leaflist-shape-unchanged")
		if ok && ll.LeaflistVal != nil && len(ll.LeaflistVal.Element) == 2 {
			e0, ok0 := ll.LeaflistVal.Element[0].Value.(*gnmi.TypedValue_UintVal)
			e1, ok1 := ll.LeaflistVal.Element[1].Value.(*gnmi.TypedValue_UintVal)
			verifrt.Assert(ok0 && ok1 && e0.UintVal == v0 && e1.UintVal == v1, "leaflist-uint-elements-unchanged")
		}
	}
	rfc := verifrt.Fork("rfc7951", 2) == 1
	doc, err := tree.BuildTree([]*configapi.PathValue{{Path: "/x", Value: *native}}, rfc)
	verifrt.Assert(err == nil, "tree-builds")
	if err != nil {
		return
	}
	root, ok := verifrt.JSONValue(doc).(map[string]interface{})
	verifrt.Assert(ok, "document-is-an-object")
	if !ok {
		return
	}
	if rfc && width > 32 {
		strs, isStrs := vStrElems(root["x"])
		verifrt.Assert(isStrs && len(strs) == 2, "leaflist-json-elements-are-strings")
		if isStrs && len(strs) == 2 {
			verifrt.Assert(strs[0] == fmt.Sprintf("%d", v0) && strs[1] == fmt.Sprintf("%d", v1), "leaflist-json-text-is-the-unsigned-decimal")
		}
	} else if nums, isNums := root["x"].([]uint64); isNums {
		// (the symbolic run sees the value handed to the encoder; a native replay sees decoded JSON numbers, which
		// are float64 and not compared here)
		verifrt.Assert(len(nums) == 2 && nums[0] == v0 && nums[1] == v1, "leaflist-json-numbers-unchanged")
	} else {
		l, isList := root["x"].([]interface{})
		verifrt.Assert(isList && len(l) == 2, "leaflist-json-elements-are-numbers")
		for _, e := range l {
			_, isStr := e.(string)
			verifrt.Assert(!isStr, "leaflist-json-elements-are-numbers")
		}
	}
}

// vStrElems: a JSON array of strings, as handed to the encoder ([]string) or as decoded from the document
func vStrElems(v interface{}) ([]string, bool) {
	if s, ok := v.([]string); ok {
		return s, true
	}
	l, ok := v.([]interface{})
	if !ok {
		return nil, false
	}
	out := make([]string, 0, len(l))
	for _, e := range l {
		s, isStr := e.(string)
		if !isStr {
			return nil, false
		}
		out = append(out, s)
	}
	return out, true
}

// VerifC17LeafListOther: leaf-lists of two bool / string / bytes / int elements survive the journey (stored value ->
// PROTO Get value and southbound update), element by element and in order; the model's type options are arbitrary
func VerifC17LeafListOther() {
	rw := &adminapi.ReadWritePath{}
	if verifrt.Fork("typeopts", 2) == 1 {
		rw.TypeOpts = []uint64{uint64(verifrt.NondetByte("opt0"))}
	}
	mk := func(a, b *gnmi.TypedValue) *gnmi.TypedValue {
		return &gnmi.TypedValue{Value: &gnmi.TypedValue_LeaflistVal{LeaflistVal: &gnmi.ScalarArray{Element: []*gnmi.TypedValue{a, b}}}}
	}
	elems := func(out *gnmi.TypedValue) []*gnmi.TypedValue {
		ll, ok := out.Value.(*gnmi.TypedValue_LeaflistVal)
		verifrt.Assert(ok && ll.LeaflistVal != nil && len(ll.LeaflistVal.Element) == 2, "leaflist-shape-unchanged")
		if !ok || ll.LeaflistVal == nil || len(ll.LeaflistVal.Element) != 2 {
			return nil
		}
		return ll.LeaflistVal.Element
	}
	switch verifrt.Fork("kind", 4) {
	case 0:
		b0, b1 := verifrt.NondetBool("b0"), verifrt.NondetBool("b1")
		_, back, sbv := vRoundTrip(mk(&gnmi.TypedValue{Value: &gnmi.TypedValue_BoolVal{BoolVal: b0}}, &gnmi.TypedValue{Value: &gnmi.TypedValue_BoolVal{BoolVal: b1}}), rw)
		if back == nil || sbv == nil {
			return
		}
		verifrt.Cover("converted")
		for _, out := range []*gnmi.TypedValue{back, sbv} {
			if e := elems(out); e != nil {
				x, ok0 := e[0].Value.(*gnmi.TypedValue_BoolVal)
				y, ok1 := e[1].Value.(*gnmi.TypedValue_BoolVal)
				verifrt.Assert(ok0 && ok1 && x.BoolVal == b0 && y.BoolVal == b1, "leaflist-bool-elements-unchanged")
			}
		}
	case 1:
		s0, s1 := verifrt.NondetStringN("s0", 1, "ab,"), verifrt.NondetStringN("s1", 2, "ab,")
		_, back, sbv := vRoundTrip(mk(&gnmi.TypedValue{Value: &gnmi.TypedValue_StringVal{StringVal: s0}}, &gnmi.TypedValue{Value: &gnmi.TypedValue_StringVal{StringVal: s1}}), rw)
		if back == nil || sbv == nil {
			return
		}
		verifrt.Cover("converted")
		for _, out := range []*gnmi.TypedValue{back, sbv} {
			if e := elems(out); e != nil {
				verifrt.Assert(e[0].GetStringVal() == s0 && e[1].GetStringVal() == s1, "leaflist-string-elements-unchanged")
			}
		}
	case 2:
		s0, s1 := verifrt.NondetStringN("y0", 1, "\x00a\x1d"), verifrt.NondetStringN("y1", 2, "\x00a\x1d")
		_, back, sbv := vRoundTrip(mk(&gnmi.TypedValue{Value: &gnmi.TypedValue_BytesVal{BytesVal: []byte(s0)}}, &gnmi.TypedValue{Value: &gnmi.TypedValue_BytesVal{BytesVal: []byte(s1)}}), rw)
		if back == nil || sbv == nil {
			return
		}
		verifrt.Cover("converted")
		for _, out := range []*gnmi.TypedValue{back, sbv} {
			if e := elems(out); e != nil {
				verifrt.Assert(string(e[0].GetBytesVal()) == s0 && string(e[1].GetBytesVal()) == s1, "leaflist-bytes-elements-unchanged")
			}
		}
	case 3:
		i0, i1 := verifrt.NondetInt64("i0"), verifrt.NondetInt64("i1")
		_, back, sbv := vRoundTrip(mk(&gnmi.TypedValue{Value: &gnmi.TypedValue_IntVal{IntVal: i0}}, &gnmi.TypedValue{Value: &gnmi.TypedValue_IntVal{IntVal: i1}}), rw)
		if back == nil || sbv == nil {
			return
		}
		verifrt.Cover("converted")
		for _, out := range []*gnmi.TypedValue{back, sbv} {
			if e := elems(out); e != nil {
				x, ok0 := e[0].Value.(*gnmi.TypedValue_IntVal)
				y, ok1 := e[1].Value.(*gnmi.TypedValue_IntVal)
				verifrt.Assert(ok0 && ok1 && x.IntVal == i0 && y.IntVal == i1, "leaflist-int-elements-unchanged")
			}
		}
	}
}
