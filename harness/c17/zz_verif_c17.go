//go:build verif

package values

import (
	adminapi "github.com/onosproject/onos-api/go/onos/config/admin"
	configapi "github.com/onosproject/onos-api/go/onos/config/v2"
	"github.com/onosproject/onos-config/internal/verifrt"
	"github.com/onosproject/onos-config/pkg/utils/v2/tree"
	gnmi "github.com/openconfig/gnmi/proto/gnmi"
)

// model type options of the leaf: absent, or a width of 8/16/32/64 bits
func vModelPath() (*adminapi.ReadWritePath, int) {
	w := verifrt.Fork("width", 5)
	rw := &adminapi.ReadWritePath{}
	width := 32 // the default the conversion assumes
	switch w {
	case 1:
		width = 8
	case 2:
		width = 16
	case 3:
		width = 32
	case 4:
		width = 64
	}
	if w != 0 {
		rw.TypeOpts = []uint64{uint64(width)}
	}
	return rw, width
}

// the value as stored -> southbound update and PROTO Get value (both use NativeTypeToGnmiTypedValue); JSON typing
func vRoundTrip(in *gnmi.TypedValue, rw *adminapi.ReadWritePath) (*configapi.TypedValue, *gnmi.TypedValue, *gnmi.TypedValue) {
	native, err := GnmiTypedValueToNativeType(in, rw)
	verifrt.Assert(err == nil && native != nil, "value-accepted")
	if err != nil || native == nil {
		return nil, nil, nil
	}
	back, err := NativeTypeToGnmiTypedValue(native)
	verifrt.Assert(err == nil && back != nil, "value-converts-back")
	req, err := PathValuesToGnmiChange([]*configapi.PathValue{{Path: "/x", Value: *native}}, "t1")
	var sbv *gnmi.TypedValue
	if err == nil && req != nil && len(req.Update) == 1 {
		sbv = req.Update[0].Val
	}
	verifrt.Assert(sbv != nil, "southbound-update-built")
	return native, back, sbv
}

func vJSONIsString(native *configapi.TypedValue, rfc bool) bool {
	doc, err := tree.BuildTree([]*configapi.PathValue{{Path: "/x", Value: *native}}, rfc)
	verifrt.Assert(err == nil, "tree-builds")
	if err != nil {
		return false
	}
	root, ok := verifrt.JSONValue(doc).(map[string]interface{})
	verifrt.Assert(ok, "document-is-an-object")
	if !ok {
		return false
	}
	_, isStr := root["x"].(string)
	return isStr
}

// VerifC17Int: int64 values of every width survive; RFC 7951: 64-bit integers are JSON strings
func VerifC17Int() {
	rw, width := vModelPath()
	v := verifrt.NondetInt64("v")
	native, back, sbv := vRoundTrip(&gnmi.TypedValue{Value: &gnmi.TypedValue_IntVal{IntVal: v}}, rw)
	if native == nil || back == nil || sbv == nil {
		return
	}
	verifrt.Cover("converted")
	b, ok := back.Value.(*gnmi.TypedValue_IntVal)
	verifrt.Assert(ok && b.IntVal == v, "int-value-returned-unchanged")
	s, ok := sbv.Value.(*gnmi.TypedValue_IntVal)
	verifrt.Assert(ok && s.IntVal == v, "int-value-sent-unchanged")
	rfc := verifrt.NondetBool("rfc7951")
	verifrt.Assert(vJSONIsString(native, rfc) == (rfc && width > 32), "int-json-type")
}

// VerifC17Uint
func VerifC17Uint() {
	rw, width := vModelPath()
	v := verifrt.NondetUint64("v")
	native, back, sbv := vRoundTrip(&gnmi.TypedValue{Value: &gnmi.TypedValue_UintVal{UintVal: v}}, rw)
	if native == nil || back == nil || sbv == nil {
		return
	}
	verifrt.Cover("converted")
	b, ok := back.Value.(*gnmi.TypedValue_UintVal)
	verifrt.Assert(ok && b.UintVal == v, "uint-value-returned-unchanged")
	s, ok := sbv.Value.(*gnmi.TypedValue_UintVal)
	verifrt.Assert(ok && s.UintVal == v, "uint-value-sent-unchanged")
	rfc := verifrt.NondetBool("rfc7951")
	verifrt.Assert(vJSONIsString(native, rfc) == (rfc && width > 32), "uint-json-type")
}

// VerifC17Scalars: string / ascii / bool / bytes / decimal64
func VerifC17Scalars() {
	rw := &adminapi.ReadWritePath{}
	switch verifrt.Fork("kind", 5) {
	case 0:
		s := verifrt.NondetString("s", 3, "a1\"")
		_, back, sbv := vRoundTrip(&gnmi.TypedValue{Value: &gnmi.TypedValue_StringVal{StringVal: s}}, rw)
		if back != nil && sbv != nil {
			verifrt.Cover("converted")
			verifrt.Assert(back.GetStringVal() == s && sbv.GetStringVal() == s, "string-value-unchanged")
		}
	case 1:
		s := verifrt.NondetString("s", 3, "a1\"")
		_, back, sbv := vRoundTrip(&gnmi.TypedValue{Value: &gnmi.TypedValue_AsciiVal{AsciiVal: s}}, rw)
		if back != nil && sbv != nil {
			verifrt.Cover("converted")
			verifrt.Assert(back.GetStringVal() == s && sbv.GetStringVal() == s, "ascii-value-unchanged")
		}
	case 2:
		b := verifrt.NondetBool("b")
		native, back, sbv := vRoundTrip(&gnmi.TypedValue{Value: &gnmi.TypedValue_BoolVal{BoolVal: b}}, rw)
		if back != nil && sbv != nil {
			verifrt.Cover("converted")
			x, ok := back.Value.(*gnmi.TypedValue_BoolVal)
			y, ok2 := sbv.Value.(*gnmi.TypedValue_BoolVal)
			verifrt.Assert(ok && ok2 && x.BoolVal == b && y.BoolVal == b, "bool-value-unchanged")
			verifrt.Assert(!vJSONIsString(native, true), "bool-json-type")
		}
	case 3:
		s := verifrt.NondetString("bytes", 3, "\x00a\xff")
		_, back, sbv := vRoundTrip(&gnmi.TypedValue{Value: &gnmi.TypedValue_BytesVal{BytesVal: []byte(s)}}, rw)
		if back != nil && sbv != nil {
			verifrt.Cover("converted")
			verifrt.Assert(string(back.GetBytesVal()) == s && string(sbv.GetBytesVal()) == s, "bytes-value-unchanged")
		}
	case 4:
		d := verifrt.NondetInt64("digits")
		p := verifrt.NondetUint32("precision")
		verifrt.Assume(p <= 18)
		native, back, sbv := vRoundTrip(&gnmi.TypedValue{Value: &gnmi.TypedValue_DecimalVal{DecimalVal: &gnmi.Decimal64{Digits: d, Precision: p}}}, rw)
		if back != nil && sbv != nil {
			verifrt.Cover("converted")
			x, y := back.GetDecimalVal(), sbv.GetDecimalVal()
			verifrt.Assert(x != nil && y != nil && x.Digits == d && x.Precision == p && y.Digits == d && y.Precision == p, "decimal-value-unchanged")
			_ = native
		}
	}
}
