//go:build verif

package admin

import (
	"context"

	adminapi "github.com/onosproject/onos-api/go/onos/config/admin"
	configapi "github.com/onosproject/onos-api/go/onos/config/v2"
	"github.com/onosproject/onos-config/internal/verifrt"
	"github.com/onosproject/onos-config/pkg/pluginregistry"
	"github.com/onosproject/onos-config/pkg/store/v2/configuration"
	pathutils "github.com/onosproject/onos-config/pkg/utils/path"
	"github.com/onosproject/onos-lib-go/pkg/errors"
	"github.com/openconfig/gnmi/proto/gnmi"
)

// ---- environment of the admin panic-site harness

var bPopulated bool

type bCfgStore struct{ configuration.Store }

func (s *bCfgStore) Get(ctx context.Context, id configapi.ConfigurationID) (*configapi.Configuration, error) {
	if id != configuration.NewID("t1", "ty", "1") {
		return nil, errors.NewNotFound("configuration not found")
	}
	c := &configapi.Configuration{ID: id, TargetID: "t1"}
	if bPopulated {
		c.Values = map[string]*configapi.PathValue{
			"/a/b":  {Path: "/a/b", Value: *configapi.NewTypedValueString("1")},
			"/a/bc": {Path: "/a/bc", Value: *configapi.NewTypedValueString("2"), Deleted: true},
		}
	}
	return c, nil
}

type bPlugin struct{ pluginregistry.ModelPlugin }

func (p *bPlugin) GetInfo() *pluginregistry.ModelPluginInfo {
	return &pluginregistry.ModelPluginInfo{
		Info: adminapi.ModelInfo{Name: "ty", Version: "1"},
		ReadWritePaths: pathutils.ReadWritePathMap{
			"/a/b":      adminapi.ReadWritePath{ValueType: configapi.ValueType_STRING},
			"/a/bc":     adminapi.ReadWritePath{ValueType: configapi.ValueType_STRING},
			"/l[k=*]/x": adminapi.ReadWritePath{ValueType: configapi.ValueType_STRING},
			"/l[k=*]/k": adminapi.ReadWritePath{ValueType: configapi.ValueType_STRING, IsAKey: true, AttrName: "k"},
		},
	}
}

func (p *bPlugin) GetPathValues(ctx context.Context, pathPrefix string, jsonData []byte) ([]*configapi.PathValue, error) {
	if verifrt.NondetBool("pathvalues.fail") {
		return nil, errors.NewInvalid("no such path")
	}
	return []*configapi.PathValue{{Path: "/a/b", Value: *configapi.NewTypedValueString("j")}}, nil
}

func (p *bPlugin) LeafValueSelection(ctx context.Context, selectionPath string, jsonData []byte) ([]string, error) {
	if verifrt.NondetBool("selection.fail") {
		return nil, errors.NewInvalid("no selection")
	}
	return []string{"x"}, nil
}

type bRegistry struct{ pluginregistry.PluginRegistry }

func (r *bRegistry) GetPlugin(model configapi.TargetType, version configapi.TargetVersion) (pluginregistry.ModelPlugin, bool) {
	return &bPlugin{}, model == "ty" && version == "1"
}

func bPath(tag string) *gnmi.Path {
	switch verifrt.Fork(tag, 6) {
	case 0:
		return nil
	case 1:
		return &gnmi.Path{}
	case 2:
		return &gnmi.Path{Elem: []*gnmi.PathElem{{Name: "a"}, {Name: "b"}}}
	case 3:
		return &gnmi.Path{Elem: []*gnmi.PathElem{{Name: "a"}}}
	case 4:
		return &gnmi.Path{Elem: []*gnmi.PathElem{{Name: "l", Key: map[string]string{"k": "1"}}, {Name: "x"}}}
	}
	return &gnmi.Path{Elem: []*gnmi.PathElem{{Name: "zz"}}}
}

func bValue(tag string) *gnmi.TypedValue {
	switch verifrt.Fork(tag, 4) {
	case 0:
		return nil
	case 1:
		return &gnmi.TypedValue{}
	case 2:
		return &gnmi.TypedValue{Value: &gnmi.TypedValue_StringVal{StringVal: "v"}}
	}
	return &gnmi.TypedValue{Value: &gnmi.TypedValue_JsonVal{JsonVal: []byte("{}")}}
}

// VerifC12Admin: any decodable LeafSelectionQuery / GetConfiguration-style admin request against the empty and the
// populated configuration of t1 is answered; the engine's panic-site obligations are the property.
func VerifC12Admin() {
	req := &adminapi.LeafSelectionQueryRequest{SelectionPath: "/a/b"}
	switch verifrt.Fork("target", 3) {
	case 0:
		req.Target, req.Type, req.Version = "t1", "ty", "1"
	case 1:
		req.Target, req.Type, req.Version = "t1", "other", "1" // no configuration, no plugin
	}
	switch verifrt.Fork("context", 5) {
	case 1:
		req.ChangeContext = &gnmi.SetRequest{}
	case 2:
		req.ChangeContext = &gnmi.SetRequest{Update: []*gnmi.Update{{Path: bPath("upd.path"), Val: bValue("upd.val")}}}
	case 3:
		req.ChangeContext = &gnmi.SetRequest{Prefix: bPath("prefix"), Replace: []*gnmi.Update{{Path: bPath("rep.path"), Val: bValue("rep.val")}}}
	case 4:
		req.ChangeContext = &gnmi.SetRequest{Delete: []*gnmi.Path{bPath("del.path")}}
	}
	bPopulated = verifrt.Fork("populated", 2) == 1
	srv := Server{configurationsStore: &bCfgStore{}, pluginRegistry: &bRegistry{}}
	resp, err := srv.LeafSelectionQuery(context.Background(), req)
	verifrt.Cover("answered")
	if err == nil {
		verifrt.Cover("accepted")
		verifrt.Assert(resp != nil, "response-or-status")
	}
}
