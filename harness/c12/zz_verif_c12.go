//go:build verif

package gnmi

import (
	"context"

	configapi "github.com/onosproject/onos-api/go/onos/config/v2"
	"github.com/onosproject/onos-config/internal/verifrt"
	"github.com/openconfig/gnmi/proto/gnmi"
)

// VerifC12Set: any decodable SetRequest (bounded) is answered; the engine's panic-site obligations are the property.
// One delivered event completes the transaction so that the response-building code is reached as well.
func VerifC12Set() {
	req := &gnmi.SetRequest{}
	// mode 0 ("string"): one element, no key, name of up to namelen symbolic bytes, prefix without elements;
	// mode 1 ("shape"): prefix with 0..1 elements, 0..elems path elements, names of <= 1 byte, optional key
	maxElems, nameLen, withKey, prefixElems := 1, verifrt.Param("namelen"), false, 0
	if verifrt.Fork("mode", 2) == 1 {
		maxElems, nameLen, withKey, prefixElems = verifrt.Param("elems"), 1, true, 1
	}
	if !verifrt.NondetBool("prefix.absent") {
		req.Prefix = &gnmi.Path{Target: vGenTarget("prefix.target"), Elem: vGenElems("prefix", prefixElems, 1, false)}
	}
	switch verifrt.Fork("opkind", 3) {
	case 0:
		req.Delete = []*gnmi.Path{{Target: vGenTarget("del.target"), Elem: vGenElems("del", maxElems, nameLen, withKey)}}
	case 1:
		req.Replace = []*gnmi.Update{{Path: vGenPath("rep", maxElems, nameLen, withKey), Val: vGenValue("rep.val")}}
	case 2:
		req.Update = []*gnmi.Update{{Path: vGenPath("upd", maxElems, nameLen, withKey), Val: vGenValue("upd.val")}}
	}
	req.Extension = vGenExtensions("ext")
	vNEvents = 1
	vStates[0] = int32(configapi.TransactionStatus_APPLIED)
	if verifrt.NondetBool("committed-only") {
		vStates[0] = int32(configapi.TransactionStatus_COMMITTED)
	}
	srv := vServer()
	srv.gnmiSetSizeLimit = verifrt.NondetInt("sizelimit")
	resp, err := srv.Set(context.Background(), req)
	verifrt.Cover("answered")
	if err == nil {
		verifrt.Cover("accepted")
		verifrt.Assert(resp != nil, "response-or-status")
	}
}

// VerifC12Subscribe: any decodable subscribe / poll message (prefix and paths may be absent) is answered.
func VerifC12Subscribe() {
	stream := &c19Stream{}
	n := verifrt.Fork("nmsg", 2) + 1
	for i := 0; i < n; i++ {
		switch verifrt.Fork("kind"+"01"[i:i+1], 4) {
		case 0:
			sl := &gnmi.SubscriptionList{}
			if !verifrt.NondetBool("prefix.absent") {
				sl.Prefix = &gnmi.Path{Target: vGenTarget("prefix.target")}
			}
			ne := verifrt.Fork("nentries"+"01"[i:i+1], 3)
			for k := 0; k < ne; k++ {
				e := &gnmi.Subscription{}
				if !verifrt.NondetBool("path.absent") {
					e.Path = &gnmi.Path{Target: vGenTarget("path.target")}
				}
				sl.Subscription = append(sl.Subscription, e)
			}
			stream.script = append(stream.script, &gnmi.SubscribeRequest{Request: &gnmi.SubscribeRequest_Subscribe{Subscribe: sl}})
		case 1:
			stream.script = append(stream.script, &gnmi.SubscribeRequest{Request: &gnmi.SubscribeRequest_Poll{Poll: &gnmi.Poll{}}})
		case 2:
			stream.script = append(stream.script, &gnmi.SubscribeRequest{})
		default:
			stream.script = append(stream.script, &gnmi.SubscribeRequest{Request: &gnmi.SubscribeRequest_Subscribe{}})
		}
	}
	srv := &Server{conns: &c19Conns{}}
	_ = srv.Subscribe(stream)
	verifrt.Cover("stream-ended")
}
