//go:build verif

package gnmi

import (
	"context"

	configapi "github.com/onosproject/onos-api/go/onos/config/v2"
	"github.com/onosproject/onos-config/internal/verifrt"
	"github.com/openconfig/gnmi/proto/gnmi"
)

// VerifC12Set: any decodable SetRequest (bounded) is answered; the engine's panic-site obligations are the property.
// One delivered event completes the transaction so that the response-building code is reached as well.
func VerifC12Set() {
	req := &gnmi.SetRequest{}
	if !verifrt.NondetBool("prefix.absent") {
		req.Prefix = &gnmi.Path{Target: vGenTarget("prefix.target"), Elem: vGenElems("prefix", 1)}
	}
	switch verifrt.Fork("opkind", 3) {
	case 0:
		req.Delete = []*gnmi.Path{{Target: vGenTarget("del.target"), Elem: vGenElems("del", verifrt.Param("elems"))}}
	case 1:
		req.Replace = []*gnmi.Update{{Path: vGenPath("rep", verifrt.Param("elems")), Val: vGenValue("rep.val")}}
	case 2:
		req.Update = []*gnmi.Update{{Path: vGenPath("upd", verifrt.Param("elems")), Val: vGenValue("upd.val")}}
	}
	req.Extension = vGenExtensions("ext")
	vNEvents = 1
	vStates[0] = int32(configapi.TransactionStatus_APPLIED)
	if verifrt.NondetBool("committed-only") {
		vStates[0] = int32(configapi.TransactionStatus_COMMITTED)
	}
	srv := vServer()
	srv.gnmiSetSizeLimit = verifrt.NondetInt("sizelimit")
	resp, err := srv.Set(context.Background(), req)
	verifrt.Cover("answered")
	if err == nil {
		verifrt.Cover("accepted")
		verifrt.Assert(resp != nil, "response-or-status")
	}
}
