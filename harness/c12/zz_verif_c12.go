//go:build verif

package gnmi

import (
	"context"

	configapi "github.com/onosproject/onos-api/go/onos/config/v2"
	topoapi "github.com/onosproject/onos-api/go/onos/topo"
	"github.com/onosproject/onos-config/internal/verifrt"
	sb "github.com/onosproject/onos-config/pkg/southbound/gnmi"
	"github.com/onosproject/onos-lib-go/pkg/errors"
	"github.com/openconfig/gnmi/proto/gnmi"
)

// VerifC12Set: any decodable SetRequest (bounded) is answered; the engine's panic-site obligations are the property.
// One delivered event completes the transaction so that the response-building code is reached as well.
func VerifC12Set() {
	req := &gnmi.SetRequest{}
	// mode 0 ("string"): one element, no key, name of up to namelen symbolic bytes, prefix without elements;
	// mode 1 ("shape"): prefix with 0..1 elements, 0..elems path elements, names of <= 1 byte, optional key
	// mode 2 ("model"): the operation names a node of the model (leaf, key leaf, list entry, container), so that the value
	// conversion, the key check and the change construction are reached with every value alternative
	maxElems, nameLen, withKey, prefixElems := 1, verifrt.Param("namelen"), false, 0
	mode := verifrt.Fork("mode", 3)
	if mode == 1 {
		maxElems, nameLen, withKey, prefixElems = verifrt.Param("elems"), 1, true, verifrt.Param("prefixelems")
	}
	if !verifrt.NondetBool("prefix.absent") {
		req.Prefix = &gnmi.Path{Target: vGenTarget("prefix.target"), Elem: vGenElems("prefix", prefixElems, 1, false)}
	}
	opkind := verifrt.Fork("opkind", 3)
	if mode == 2 {
		p := &gnmi.Path{Target: vGenTarget("op.target"), Elem: vModelElems(verifrt.Fork("op.path", 6))}
		switch opkind {
		case 0:
			req.Delete = []*gnmi.Path{p}
		case 1:
			req.Replace = []*gnmi.Update{{Path: p, Val: vGenValue("rep.val")}}
		case 2:
			req.Update = []*gnmi.Update{{Path: p, Val: vGenValue("upd.val")}}
		}
	} else {
		switch opkind {
		case 0:
			req.Delete = []*gnmi.Path{{Target: vGenTarget("del.target"), Elem: vGenElems("del", maxElems, nameLen, withKey)}}
		case 1:
			req.Replace = []*gnmi.Update{{Path: vGenPath("rep", maxElems, nameLen, withKey), Val: vGenValue("rep.val")}}
		case 2:
			req.Update = []*gnmi.Update{{Path: vGenPath("upd", maxElems, nameLen, withKey), Val: vGenValue("upd.val")}}
		}
	}
	req.Extension = vGenExtensions("ext")
	// the controllers complete the transaction: either the first event already shows it APPLIED, or COMMITTED first
	// (an asynchronous Set answers then) and APPLIED afterwards (what a synchronous Set waits for)
	vNEvents = 1
	vStates[0] = int32(configapi.TransactionStatus_APPLIED)
	if verifrt.Fork("committed-first", 2) == 1 {
		vNEvents = 2
		vStates[0], vStates[1] = int32(configapi.TransactionStatus_COMMITTED), int32(configapi.TransactionStatus_APPLIED)
	}
	srv := vServer()
	srv.gnmiSetSizeLimit = verifrt.NondetInt("sizelimit")
	resp, err := srv.Set(context.Background(), req)
	verifrt.Cover("answered")
	if err == nil {
		verifrt.Cover("accepted")
		verifrt.Assert(resp != nil, "response-or-status")
	}
}

// VerifC12Subscribe: any decodable subscribe / poll message (prefix and paths may be absent) is answered.
func VerifC12Subscribe() {
	stream := &c19Stream{}
	n := verifrt.Fork("nmsg", 2) + 1
	for i := 0; i < n; i++ {
		switch verifrt.Fork("kind"+"01"[i:i+1], 4) {
		case 0:
			sl := &gnmi.SubscriptionList{}
			if !verifrt.NondetBool("prefix.absent") {
				sl.Prefix = &gnmi.Path{Target: vGenTarget("prefix.target")}
			}
			ne := verifrt.Fork("nentries"+"01"[i:i+1], 3)
			for k := 0; k < ne; k++ {
				e := &gnmi.Subscription{}
				if !verifrt.NondetBool("path.absent") {
					e.Path = &gnmi.Path{Target: vGenTarget("path.target")}
				}
				sl.Subscription = append(sl.Subscription, e)
			}
			stream.script = append(stream.script, &gnmi.SubscribeRequest{Request: &gnmi.SubscribeRequest_Subscribe{Subscribe: sl}})
		case 1:
			stream.script = append(stream.script, &gnmi.SubscribeRequest{Request: &gnmi.SubscribeRequest_Poll{Poll: &gnmi.Poll{}}})
		case 2:
			stream.script = append(stream.script, &gnmi.SubscribeRequest{})
		default:
			stream.script = append(stream.script, &gnmi.SubscribeRequest{Request: &gnmi.SubscribeRequest_Subscribe{}})
		}
	}
	srv := &Server{conns: &c19Conns{}}
	_ = srv.Subscribe(stream)
	verifrt.Cover("stream-ended")
}

// c12Name: element names of the Get harness: ordinary names, the gNMI wildcards and bytes that are special in a
// regular expression (the Get path is turned into one); the pool is case-split so that every pattern is concrete
func c12Name(tag string, pool int) string {
	switch verifrt.Fork(tag, pool) {
	case 0:
		return "a"
	case 1:
		return "bc"
	case 2:
		return "*"
	case 3:
		return "..."
	case 4:
		return "("
	case 5:
		return "\\"
	case 6:
		return "]"
	case 7:
		return "l"
	case 8:
		return "a)"
	case 9:
		return "[x"
	case 10:
		return "+?"
	case 11:
		return "{2"
	}
	return ""
}

type c12GetClient struct{ sb.Client }

func (c *c12GetClient) Get(ctx context.Context, r *gnmi.GetRequest) (*gnmi.GetResponse, error) {
	return &gnmi.GetResponse{Notification: []*gnmi.Notification{{}}}, nil
}

type c12Conns struct{ sb.ConnManager }

func (m *c12Conns) GetByTarget(ctx context.Context, id topoapi.ID) (sb.Client, error) {
	if id == "t1" {
		return &c12GetClient{}, nil
	}
	return nil, errors.NewNotFound("no connection")
}

// VerifC12Get: any decodable GetRequest (bounded shape) against the empty and the populated configuration of t1.
func VerifC12Get() {
	pool := verifrt.Param("pool")
	req := &gnmi.GetRequest{}
	switch verifrt.Fork("prefix", 3) {
	case 1:
		req.Prefix = &gnmi.Path{Target: vGenTarget("prefix.target")}
	case 2:
		pn := "a"
		switch verifrt.Fork("prefix.name", 3) {
		case 1:
			pn = "("
		case 2:
			pn = "*"
		}
		req.Prefix = &gnmi.Path{Target: vGenTarget("prefix.target"), Elem: []*gnmi.PathElem{{Name: pn}}}
	}
	np := verifrt.Fork("npaths", 3)
	if np >= 1 {
		p := &gnmi.Path{Target: vGenTarget("p0.target")}
		ne := verifrt.Fork("p0.nelem", 3)
		for i := 0; i < ne; i++ {
			e := &gnmi.PathElem{Name: c12Name("p0.e"+vd(i), pool)}
			nk := 1
			if i == 0 {
				nk = verifrt.Param("keys")
			}
			switch verifrt.Fork("p0.key"+vd(i), nk) {
			case 1:
				e.Key = map[string]string{"k": "("}
			case 2:
				e.Key = map[string]string{"k": "1"}
			case 3:
				e.Key = map[string]string{"k": "*"}
			}
			p.Elem = append(p.Elem, e)
		}
		req.Path = append(req.Path, p)
	}
	if np >= 2 {
		// a second entry: empty path or one plain element, its own target
		p := &gnmi.Path{Target: vGenTarget("p1.target")}
		p.Elem = []*gnmi.PathElem{{Name: "a"}}
		req.Path = append(req.Path, p)
	}
	enc := verifrt.NondetInt32("encoding")
	verifrt.Assume(enc >= 0 && enc <= 5)
	req.Encoding = gnmi.Encoding(enc)
	ty := verifrt.NondetInt32("type")
	verifrt.Assume(ty >= 0 && ty <= 3)
	req.Type = gnmi.GetRequest_DataType(ty)
	vNoSync = true
	req.Extension = vGenExtensions("ext")
	vPopulated = verifrt.Fork("populated", 2) == 1
	srv := vServer()
	srv.conns = &c12Conns{}
	resp, err := srv.Get(context.Background(), req)
	verifrt.Cover("answered")
	if err == nil {
		verifrt.Cover("accepted")
		verifrt.Assert(resp != nil, "response-or-status")
	}
}
