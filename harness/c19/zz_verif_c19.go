//go:build verif

package gnmi

import (
	"context"
	"io"

	topoapi "github.com/onosproject/onos-api/go/onos/topo"
	"github.com/onosproject/onos-config/internal/verifrt"
	sb "github.com/onosproject/onos-config/pkg/southbound/gnmi"
	"github.com/onosproject/onos-lib-go/pkg/errors"
	baseClient "github.com/openconfig/gnmi/client"
	"github.com/openconfig/gnmi/proto/gnmi"
	"google.golang.org/grpc"
)

// ---- northbound stream: a scripted sequence of requests, then EOF; records what is sent back

type c19Stream struct {
	grpc.ServerStream
	script []*gnmi.SubscribeRequest
	pos    int
	sent   []*gnmi.SubscribeResponse
}

func (s *c19Stream) Context() context.Context { return context.Background() }

func (s *c19Stream) Recv() (*gnmi.SubscribeRequest, error) {
	if s.pos >= len(s.script) {
		return nil, io.EOF
	}
	r := s.script[s.pos]
	s.pos++
	return r, nil
}

func (s *c19Stream) Send(r *gnmi.SubscribeResponse) error {
	s.sent = append(s.sent, r)
	return nil
}

// ---- southbound: one fake client per known target (t1, t2)

type c19Client struct {
	sb.Client
	t int
}

var (
	c19Subs  [2]int                     // Subscribe calls per target
	c19Polls [2]int                     // Poll calls per target
	c19Req   [2]*gnmi.SubscribeRequest  // the request handed to the target (query.SubReq)
	c19Resp  [2]*gnmi.SubscribeResponse // the response the target emitted through the query's proto handler
	c19Other int                        // lookups of any other target
	c19HErr  bool                       // the proto handler returned an error
)

func (c *c19Client) Subscribe(ctx context.Context, q baseClient.Query) error {
	c19Subs[c.t]++
	c19Req[c.t] = q.SubReq
	if q.ProtoHandler != nil {
		r := &gnmi.SubscribeResponse{Response: &gnmi.SubscribeResponse_SyncResponse{SyncResponse: true}}
		c19Resp[c.t] = r
		if err := q.ProtoHandler(r); err != nil {
			c19HErr = true
		}
	}
	return nil
}

func (c *c19Client) Poll() error {
	c19Polls[c.t]++
	return nil
}

type c19Conns struct{ sb.ConnManager }

func (m *c19Conns) GetByTarget(ctx context.Context, id topoapi.ID) (sb.Client, error) {
	switch id {
	case "t1":
		return &c19Client{t: 0}, nil
	case "t2":
		return &c19Client{t: 1}, nil
	}
	c19Other++
	return nil, errors.NewNotFound("no connection")
}

func c19Tgt(k int) string {
	switch k {
	case 0:
		return ""
	case 1:
		return "t1"
	case 2:
		return "t2"
	}
	return "tx"
}

// VerifC19Subscribe: message sequences on one stream; the subscription list has 0..2 entries with symbolic targets.
func VerifC19Subscribe() {
	n := verifrt.Fork("nmsg", 3) + 1
	var subReq *gnmi.SubscribeRequest
	var kinds [3]int
	var entries []*gnmi.Subscription
	var etgt [2]int
	ptgt := 0
	stream := &c19Stream{}
	for i := 0; i < n; i++ {
		kinds[i] = verifrt.Fork("kind"+"012"[i:i+1], 3) // 0 subscribe, 1 poll, 2 neither
		switch kinds[i] {
		case 0:
			ne := verifrt.Fork("nentries"+"012"[i:i+1], 3)
			var es []*gnmi.Subscription
			var tg [2]int
			for k := 0; k < ne; k++ {
				tg[k] = verifrt.NondetInt("entry.target")
				verifrt.Assume(tg[k] >= 0 && tg[k] <= 3)
				es = append(es, &gnmi.Subscription{Path: &gnmi.Path{Target: c19Tgt(tg[k]), Elem: []*gnmi.PathElem{{Name: "a"}}},
					Mode: gnmi.SubscriptionMode(verifrt.NondetInt32("entry.mode"))})
			}
			pt := verifrt.NondetInt("prefix.target")
			verifrt.Assume(pt >= 0 && pt <= 3)
			r := &gnmi.SubscribeRequest{Request: &gnmi.SubscribeRequest_Subscribe{Subscribe: &gnmi.SubscriptionList{
				Prefix:       &gnmi.Path{Target: c19Tgt(pt), Origin: "o", Elem: []*gnmi.PathElem{{Name: "p"}}},
				Subscription: es,
				Mode:         gnmi.SubscriptionList_Mode(verifrt.NondetInt32("list.mode")),
				Encoding:     gnmi.Encoding(verifrt.NondetInt32("list.encoding")),
				UpdatesOnly:  verifrt.NondetBool("list.updatesonly"),
				Qos:          &gnmi.QOSMarking{Marking: 7},
			}}}
			if subReq == nil {
				subReq, entries, etgt, ptgt = r, es, tg, pt
			}
			stream.script = append(stream.script, r)
		case 1:
			stream.script = append(stream.script, &gnmi.SubscribeRequest{Request: &gnmi.SubscribeRequest_Poll{Poll: &gnmi.Poll{}}})
		default:
			stream.script = append(stream.script, &gnmi.SubscribeRequest{})
		}
	}
	srv := &Server{conns: &c19Conns{}}
	err := srv.Subscribe(stream)
	verifrt.Cover("stream-ended")

	// ---- oracle: walk the script like the documented protocol
	subscribed := false
	want := [2]bool{}
	wantPolls := [2]int{}
	refused := false
	for i := 0; i < n && !refused; i++ {
		switch kinds[i] {
		case 0:
			if subscribed {
				refused = true // a second subscription on the same stream
				break
			}
			subscribed = true
			if ptgt != 0 {
				if ptgt == 1 || ptgt == 2 {
					want[ptgt-1] = true
				}
			} else {
				any := false
				for k := range entries {
					if etgt[k] != 0 {
						any = true
					}
					if etgt[k] == 1 || etgt[k] == 2 {
						want[etgt[k]-1] = true
					}
				}
				if !any {
					refused = true // no target named anywhere
				}
			}
		case 1:
			if !subscribed {
				refused = true // poll before subscribing
				break
			}
			for t := 0; t < 2; t++ {
				if want[t] {
					wantPolls[t]++
				}
			}
		default:
			refused = true
		}
	}
	if refused {
		verifrt.Cover("refused")
		verifrt.Assert(err != nil && err != io.EOF, "inadmissible-message-is-refused")
	}
	for t := 0; t < 2; t++ {
		w := 0
		if want[t] {
			w = 1
		}
		verifrt.Assert(c19Subs[t] == w, "subscription-reaches-exactly-the-named-targets")
		verifrt.Assert(c19Polls[t] == wantPolls[t], "poll-reaches-exactly-the-subscribed-targets")
		if w == 1 && c19Subs[t] == 1 {
			got := c19Req[t]
			verifrt.Assert(got != nil && got.GetSubscribe() != nil, "target-gets-a-subscription-list")
			if got == nil || got.GetSubscribe() == nil {
				continue
			}
			sl := got.GetSubscribe()
			if ptgt != 0 {
				verifrt.Assert(got == subReq, "single-target-request-forwarded-unmodified")
			} else {
				// exactly the entries naming this target, pointer-identical, in order
				var exp []*gnmi.Subscription
				for k := range entries {
					if etgt[k] == t+1 {
						exp = append(exp, entries[k])
					}
				}
				same := len(sl.Subscription) == len(exp)
				if same {
					for k := range exp {
						same = same && sl.Subscription[k] == exp[k]
					}
				}
				verifrt.Assert(same, "target-gets-exactly-its-own-entries-unmodified")
				orig := subReq.GetSubscribe()
				verifrt.Assert(sl.Mode == orig.Mode && sl.Encoding == orig.Encoding && sl.UpdatesOnly == orig.UpdatesOnly &&
					sl.Qos == orig.Qos && sl.AllowAggregation == orig.AllowAggregation, "list-level-options-copied")
				verifrt.Assert(sl.Prefix != nil && sl.Prefix.Target == c19Tgt(t+1) && sl.Prefix.Origin == "o" &&
					len(sl.Prefix.Elem) == 1 && sl.Prefix.Elem[0] == orig.Prefix.Elem[0], "prefix-copied-with-the-target")
			}
			// the target's response is relayed as received
			relayed := false
			for _, r := range stream.sent {
				if r == c19Resp[t] {
					relayed = true
				}
			}
			verifrt.Assert(relayed && !c19HErr, "responses-relayed-as-received")
		}
	}
	nsent := 0
	for t := 0; t < 2; t++ {
		if c19Subs[t] > 0 {
			nsent++
		}
	}
	verifrt.Assert(len(stream.sent) == nsent, "nothing-else-is-sent-to-the-subscriber")
}
