//go:build verif

package proposal

import (
	"context"

	atomixerrors "github.com/atomix/atomix/api/errors"
	"github.com/atomix/go-sdk/pkg/primitive"
	_map "github.com/atomix/go-sdk/pkg/primitive/map"
	configapi "github.com/onosproject/onos-api/go/onos/config/v2"
	"github.com/onosproject/onos-config/internal/verifrt"
	"github.com/onosproject/onos-lib-go/pkg/errors"
)

type vRec struct {
	present bool
	version uint64
	next    uint64 // tracked content: Status.NextIndex
}

var (
	vStored vRec
	vUncond bool
)

const vID = configapi.ProposalID("t1-1")

type vEntry = _map.Entry[configapi.ProposalID, *configapi.Proposal]

type vMap struct {
	_map.Map[configapi.ProposalID, *configapi.Proposal]
}

func vMk() *vEntry {
	e := &vEntry{Key: vID}
	e.Version = primitive.Version(vStored.version)
	p := &configapi.Proposal{ID: vID, TargetID: "t1", TransactionIndex: 1}
	p.Revision = 1
	p.Status.NextIndex = configapi.Index(vStored.next)
	e.Value = p
	return e
}

func (m *vMap) Get(ctx context.Context, key configapi.ProposalID, opts ..._map.GetOption) (*vEntry, error) {
	if key != vID || !vStored.present {
		return nil, atomixerrors.NewNotFound("key not found")
	}
	return vMk(), nil
}

func (m *vMap) Insert(ctx context.Context, key configapi.ProposalID, value *configapi.Proposal, opts ..._map.InsertOption) (*vEntry, error) {
	if key != vID {
		return nil, atomixerrors.NewInvalid("unknown key")
	}
	if vStored.present {
		return nil, atomixerrors.NewAlreadyExists("key exists")
	}
	vStored = vRec{present: true, version: 1, next: uint64(value.Status.NextIndex)}
	return vMk(), nil
}

func (m *vMap) Update(ctx context.Context, key configapi.ProposalID, value *configapi.Proposal, opts ..._map.UpdateOption) (*vEntry, error) {
	if key != vID || !vStored.present {
		return nil, atomixerrors.NewNotFound("key not found")
	}
	if len(opts) == 0 {
		vUncond = true
	}
	for _, o := range opts {
		if verifrt.FieldUint64(o, "version") != vStored.version {
			return nil, atomixerrors.NewConflict("version")
		}
	}
	vStored.next = uint64(value.Status.NextIndex)
	vStored.version++
	return vMk(), nil
}

// VerifC15Proposal: same obligations for the proposal store
func VerifC15Proposal() {
	ctx := context.Background()
	s := &proposalStore{proposals: &vMap{}}
	created := &configapi.Proposal{ID: vID, TargetID: "t1", TransactionIndex: 1}
	verifrt.Assert(s.Create(ctx, created) == nil && created.Version >= 1, "create-versions-the-record")
	verifrt.Assert(s.Create(ctx, &configapi.Proposal{ID: vID, TargetID: "t1", TransactionIndex: 1}) != nil, "duplicate-create-refused")
	v0 := verifrt.NondetUint64("version")
	verifrt.Assume(v0 >= 1 && v0 < 1000)
	vStored.version = v0
	a, errA := s.Get(ctx, vID)
	b, errB := s.Get(ctx, vID)
	verifrt.Assert(errA == nil && errB == nil && a != nil && b != nil && a.Version == v0 && b.Version == v0, "readers-see-the-stored-version")
	if errA != nil || errB != nil || a == nil || b == nil {
		return
	}
	a.Status.NextIndex = configapi.Index(verifrt.NondetUint64("next.a"))
	b.Status.NextIndex = configapi.Index(verifrt.NondetUint64("next.b"))
	var e1, e2 error
	if verifrt.Fork("op1", 2) == 0 {
		e1 = s.Update(ctx, a)
	} else {
		e1 = s.UpdateStatus(ctx, a)
	}
	if verifrt.Fork("op2", 2) == 0 {
		e2 = s.Update(ctx, b)
	} else {
		e2 = s.UpdateStatus(ctx, b)
	}
	verifrt.Cover("two-writers")
	verifrt.Assert(!vUncond, "every-update-is-conditional-on-the-version-read")
	verifrt.Assert(e1 == nil && a.Version > v0, "first-writer-succeeds-and-the-version-grows")
	verifrt.Assert(e2 != nil && errors.IsConflict(e2), "second-writer-of-the-same-version-gets-a-conflict")
	verifrt.Assert(vStored.next == uint64(a.Status.NextIndex) && vStored.version == v0+1, "the-lost-update-left-no-trace")
}
