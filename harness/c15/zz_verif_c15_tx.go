//go:build verif

package transaction

// C15 (first sentence) for the transaction store: the REAL Create/Update/UpdateStatus/Get/GetByIndex over a stub
// atomix IndexedMap that implements the documented contract (Append assigns the next index, Update succeeds iff the
// IfVersion option carries the stored version, versions grow by one).

import (
	"context"

	atomixerrors "github.com/atomix/atomix/api/errors"
	"github.com/atomix/go-sdk/pkg/primitive"
	"github.com/atomix/go-sdk/pkg/primitive/indexedmap"
	configapi "github.com/onosproject/onos-api/go/onos/config/v2"
	"github.com/onosproject/onos-config/internal/verifrt"
	"github.com/onosproject/onos-lib-go/pkg/errors"
)

type vRec struct {
	present bool
	version uint64
	index   uint64
	state   int32 // the content we track: Status.State
	id      configapi.TransactionID
}

var (
	vLog     [3]vRec
	vLastIdx uint64
	vUncond  bool // an update arrived without a version condition
)

type vEntry = indexedmap.Entry[configapi.TransactionID, *configapi.Transaction]

type vIMap struct {
	indexedmap.IndexedMap[configapi.TransactionID, *configapi.Transaction]
}

func vMk(r *vRec) *vEntry {
	e := &vEntry{Key: r.id, Index: indexedmap.Index(r.index)}
	e.Version = primitive.Version(r.version)
	t := &configapi.Transaction{ID: r.id}
	t.Revision = 1
	t.Status.State = configapi.TransactionStatus_State(r.state)
	e.Value = t
	return e
}

func (m *vIMap) Append(ctx context.Context, key configapi.TransactionID, value *configapi.Transaction, opts ...indexedmap.AppendOption) (*vEntry, error) {
	for i := range vLog {
		if vLog[i].present && vLog[i].id == key {
			return nil, atomixerrors.NewAlreadyExists("key exists")
		}
	}
	for i := range vLog {
		if !vLog[i].present {
			vLastIdx++
			vLog[i] = vRec{present: true, version: 1, index: vLastIdx, state: int32(value.Status.State), id: key}
			return vMk(&vLog[i]), nil
		}
	}
	return nil, atomixerrors.NewUnavailable("log full")
}

func (m *vIMap) Update(ctx context.Context, key configapi.TransactionID, value *configapi.Transaction, opts ...indexedmap.UpdateOption) (*vEntry, error) {
	for i := range vLog {
		r := &vLog[i]
		if r.present && r.id == key {
			if len(opts) == 0 {
				vUncond = true
			}
			for _, o := range opts {
				if verifrt.FieldUint64(o, "version") != r.version {
					return nil, atomixerrors.NewConflict("version")
				}
			}
			r.state = int32(value.Status.State)
			r.version++
			return vMk(r), nil
		}
	}
	return nil, atomixerrors.NewNotFound("key not found")
}

func (m *vIMap) Get(ctx context.Context, key configapi.TransactionID, opts ...indexedmap.GetOption) (*vEntry, error) {
	for i := range vLog {
		if vLog[i].present && vLog[i].id == key {
			return vMk(&vLog[i]), nil
		}
	}
	return nil, atomixerrors.NewNotFound("key not found")
}

func (m *vIMap) GetIndex(ctx context.Context, index indexedmap.Index, opts ...indexedmap.GetOption) (*vEntry, error) {
	for i := range vLog {
		if vLog[i].present && vLog[i].index == uint64(index) {
			return vMk(&vLog[i]), nil
		}
	}
	return nil, atomixerrors.NewNotFound("index not found")
}

// VerifC15Transaction: two writers that both read the same version cannot both succeed; versions and indexes grow;
// a log index is never reused.
func VerifC15Transaction() {
	ctx := context.Background()
	s := &transactionStore{transactions: &vIMap{}}
	// an existing record at an arbitrary version / index
	v0 := verifrt.NondetUint64("version")
	i0 := verifrt.NondetUint64("index")
	verifrt.Assume(v0 >= 1 && v0 < 1000 && i0 >= 1 && i0 < 1000)
	vLog[0] = vRec{present: true, version: v0, index: i0, state: 0, id: "tx-a"}
	vLastIdx = i0
	a, errA := s.Get(ctx, "tx-a")
	b, errB := s.GetByIndex(ctx, configapi.Index(i0))
	verifrt.Assert(errA == nil && errB == nil && a != nil && b != nil && a.Version == v0 && b.Version == v0 && a.Index == configapi.Index(i0), "readers-see-the-stored-version-and-index")
	if errA != nil || errB != nil || a == nil || b == nil {
		return
	}
	a.Status.State = configapi.TransactionStatus_State(verifrt.NondetInt32("state.a"))
	b.Status.State = configapi.TransactionStatus_State(verifrt.NondetInt32("state.b"))
	var e1, e2 error
	if verifrt.Fork("op1", 2) == 0 {
		e1 = s.Update(ctx, a)
	} else {
		e1 = s.UpdateStatus(ctx, a)
	}
	if verifrt.Fork("op2", 2) == 0 {
		e2 = s.Update(ctx, b)
	} else {
		e2 = s.UpdateStatus(ctx, b)
	}
	verifrt.Cover("two-writers")
	verifrt.Assert(!vUncond, "every-update-is-conditional-on-the-version-read")
	verifrt.Assert(e1 == nil && a.Version > v0, "first-writer-succeeds-and-the-version-grows")
	verifrt.Assert(e2 != nil && errors.IsConflict(e2), "second-writer-of-the-same-version-gets-a-conflict")
	verifrt.Assert(vLog[0].state == int32(a.Status.State) && vLog[0].version == v0+1, "the-lost-update-left-no-trace")
	// the winner can go on; the version keeps growing
	v1 := a.Version
	a.Status.State = configapi.TransactionStatus_State(verifrt.NondetInt32("state.a2"))
	e3 := s.UpdateStatus(ctx, a)
	verifrt.Assert(e3 == nil && a.Version > v1, "versions-only-grow")
	// new entries get fresh, increasing indexes
	c := &configapi.Transaction{ID: "tx-c"}
	d := &configapi.Transaction{ID: "tx-d"}
	ec := s.Create(ctx, c)
	ed := s.Create(ctx, d)
	verifrt.Assert(ec == nil && ed == nil && c.Index > configapi.Index(i0) && d.Index > c.Index, "log-indexes-grow-and-are-never-reused")
	verifrt.Assert(c.Version >= 1 && d.Version >= 1, "created-records-are-versioned")
	// creating an existing id is refused
	dup := &configapi.Transaction{ID: "tx-c"}
	verifrt.Assert(s.Create(ctx, dup) != nil, "duplicate-create-refused")
}
