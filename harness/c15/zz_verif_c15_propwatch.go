//go:build verif

package proposal

// C15 (second sentence, sequentialised slice) for the proposal store: the REAL Watch() (replay + propagateEvents
// goroutines) over a stub atomix Map whose Events() streams honour the key filter the store passes. A watcher (all
// records / one record, with / without replay) is shown the latest state of every record written before (replay) and
// after it subscribed, with the stored version; a watcher of one record sees only that record; a second watcher is
// served independently. One cooperative schedule per case; see zz_verif_c15_txwatch.go.

import (
	"context"
	"io"

	atomixerrors "github.com/atomix/atomix/api/errors"
	"github.com/atomix/go-sdk/pkg/primitive"
	_map "github.com/atomix/go-sdk/pkg/primitive/map"
	configapi "github.com/onosproject/onos-api/go/onos/config/v2"
	"github.com/onosproject/onos-config/internal/verifrt"
)

type wRec struct {
	present bool
	version uint64
	next    uint64 // tracked content: Status.NextIndex
	id      configapi.ProposalID
}

var wRecs [2]wRec

type wEntry = _map.Entry[configapi.ProposalID, *configapi.Proposal]
type wEvent = _map.Event[configapi.ProposalID, *configapi.Proposal]

type wMap struct {
	_map.Map[configapi.ProposalID, *configapi.Proposal]
}

func wMk(r *wRec) *wEntry {
	e := &wEntry{Key: r.id}
	e.Version = primitive.Version(r.version)
	p := &configapi.Proposal{ID: r.id, TargetID: "t1", TransactionIndex: 1}
	p.Revision = 1
	p.Status.NextIndex = configapi.Index(r.next)
	e.Value = p
	return e
}

type wStreamReg struct {
	ch  chan wEvent
	key string
}

var wStreams []wStreamReg

type wEvStream struct{ ch chan wEvent }

func (s *wEvStream) Next() (wEvent, error) {
	e, ok := <-s.ch
	if !ok {
		return nil, io.EOF
	}
	return e, nil
}

type wEntryStream struct{ next int }

func (s *wEntryStream) Next() (*wEntry, error) {
	for s.next < len(wRecs) {
		r := &wRecs[s.next]
		s.next++
		if r.present {
			return wMk(r), nil
		}
	}
	return nil, io.EOF
}

func (m *wMap) publish(r *wRec, created bool) {
	for _, sr := range wStreams {
		if sr.key != "" && sr.key != string(r.id) {
			continue
		}
		if created {
			sr.ch <- &_map.Inserted[configapi.ProposalID, *configapi.Proposal]{Entry: wMk(r)}
		} else {
			sr.ch <- &_map.Updated[configapi.ProposalID, *configapi.Proposal]{Entry: wMk(r)}
		}
	}
}

func (m *wMap) Get(ctx context.Context, key configapi.ProposalID, opts ..._map.GetOption) (*wEntry, error) {
	for i := range wRecs {
		if wRecs[i].present && wRecs[i].id == key {
			return wMk(&wRecs[i]), nil
		}
	}
	return nil, atomixerrors.NewNotFound("key not found")
}

func (m *wMap) Insert(ctx context.Context, key configapi.ProposalID, value *configapi.Proposal, opts ..._map.InsertOption) (*wEntry, error) {
	for i := range wRecs {
		if wRecs[i].present && wRecs[i].id == key {
			return nil, atomixerrors.NewAlreadyExists("key exists")
		}
	}
	for i := range wRecs {
		if !wRecs[i].present {
			wRecs[i] = wRec{present: true, version: 1, next: uint64(value.Status.NextIndex), id: key}
			m.publish(&wRecs[i], true)
			return wMk(&wRecs[i]), nil
		}
	}
	return nil, atomixerrors.NewUnavailable("full")
}

func (m *wMap) Update(ctx context.Context, key configapi.ProposalID, value *configapi.Proposal, opts ..._map.UpdateOption) (*wEntry, error) {
	for i := range wRecs {
		r := &wRecs[i]
		if r.present && r.id == key {
			for _, o := range opts {
				if verifrt.FieldUint64(o, "version") != r.version {
					return nil, atomixerrors.NewConflict("version")
				}
			}
			r.next = uint64(value.Status.NextIndex)
			r.version++
			m.publish(r, false)
			return wMk(r), nil
		}
	}
	return nil, atomixerrors.NewNotFound("key not found")
}

func (m *wMap) Events(ctx context.Context, opts ..._map.EventsOption) (_map.EventStream[configapi.ProposalID, *configapi.Proposal], error) {
	key := ""
	for _, o := range opts {
		key = verifrt.FieldString(o, "filter.Key")
	}
	ch := make(chan wEvent, 16)
	wStreams = append(wStreams, wStreamReg{ch: ch, key: key})
	return &wEvStream{ch: ch}, nil
}

func (m *wMap) List(ctx context.Context) (_map.EntryStream[configapi.ProposalID, *configapi.Proposal], error) {
	return &wEntryStream{}, nil
}

type wSeen struct {
	ch chan configapi.ProposalEvent
	ev [8]configapi.ProposalEvent
	n  int
}

var wW [2]wSeen

func wDrain() {
	for round := 0; round < 10; round++ {
		verifrt.Yield()
		progress := false
		for i := range wW {
			w := &wW[i]
			select {
			case e, ok := <-w.ch:
				if ok {
					progress = true
					if w.n < len(w.ev) {
						w.ev[w.n] = e
						w.n++
					}
				}
			default:
			}
		}
		if !progress {
			return
		}
	}
}

func wIs(ev configapi.ProposalEvent, typ configapi.ProposalEvent_EventType, id configapi.ProposalID, version, next uint64) bool {
	return ev.Type == typ && ev.Proposal.ID == id && ev.Proposal.Version == version && uint64(ev.Proposal.Status.NextIndex) == next
}

func VerifC15PropWatch() {
	ctx := context.Background()
	s := &proposalStore{proposals: &wMap{}}
	v0 := verifrt.NondetUint64("version")
	n0 := verifrt.NondetUint64("next0")
	n1 := verifrt.NondetUint64("next1")
	n2 := verifrt.NondetUint64("next2")
	verifrt.Assume(v0 >= 1 && v0 < 1000)
	wRecs[0] = wRec{present: true, version: v0, next: n0, id: "t1-1"}

	// 0 all records, 1 all with replay, 2 record t1-1, 3 t1-1 with replay, 4 t1-2 (not yet written) with replay
	mode := verifrt.Fork("mode", 5)
	var opts []WatchOption
	all := mode <= 1
	replay := mode == 1 || mode == 3 || mode == 4
	var wid configapi.ProposalID
	if mode == 2 || mode == 3 {
		wid = "t1-1"
	}
	if mode == 4 {
		wid = "t1-2"
	}
	if !all {
		opts = append(opts, WithProposalID(wid))
	}
	if replay {
		opts = append(opts, WithReplay())
	}
	for i := range wW {
		wW[i].ch = make(chan configapi.ProposalEvent)
	}
	w1, w2 := &wW[0], &wW[1]
	e1 := s.Watch(ctx, w1.ch, opts...)
	e2 := s.Watch(ctx, w2.ch)
	verifrt.Assert(e1 == nil && e2 == nil, "watch-accepted")
	wDrain()
	k := 0
	if replay && mode != 4 {
		verifrt.Assert(w1.n == 1 && wIs(w1.ev[0], configapi.ProposalEvent_REPLAYED, "t1-1", v0, n0), "replay-shows-the-stored-record")
		k = 1
	}
	verifrt.Assert(w1.n == k && w2.n == 0, "nothing-else-before-a-write")

	a, errA := s.Get(ctx, "t1-1")
	if errA != nil || a == nil {
		verifrt.Assert(false, "get-stored-record")
		return
	}
	a.Status.NextIndex = configapi.Index(n1)
	errU := s.UpdateStatus(ctx, a)
	b := &configapi.Proposal{ID: "t1-2", TargetID: "t1", TransactionIndex: 2}
	b.Status.NextIndex = configapi.Index(n2)
	errC := s.Create(ctx, b)
	verifrt.Assert(errU == nil && errC == nil, "writes-succeed-with-watchers-registered")
	wDrain()
	if all || wid == "t1-1" {
		verifrt.Assert(w1.n > k && wIs(w1.ev[k], configapi.ProposalEvent_UPDATED, "t1-1", v0+1, n1), "update-after-subscribing-is-shown-with-its-version")
		k++
	}
	if all || wid == "t1-2" {
		verifrt.Assert(w1.n > k && wIs(w1.ev[k], configapi.ProposalEvent_CREATED, "t1-2", 1, n2), "create-after-subscribing-is-shown")
		k++
	}
	verifrt.Assert(w1.n == k, "a-watcher-of-one-record-sees-only-that-record-and-nothing-twice")
	verifrt.Assert(w2.n == 2 && wIs(w2.ev[0], configapi.ProposalEvent_UPDATED, "t1-1", v0+1, n1) && wIs(w2.ev[1], configapi.ProposalEvent_CREATED, "t1-2", 1, n2), "second-watcher-served")
	verifrt.Cover("watchers-delivered")
	// one more round: the latest state again
	b2, errB := s.Get(ctx, "t1-2")
	if errB != nil || b2 == nil {
		verifrt.Assert(false, "get-created-record")
		return
	}
	b2.Status.NextIndex = configapi.Index(n0)
	errU2 := s.Update(ctx, b2)
	wDrain()
	verifrt.Assert(errU2 == nil && w2.n == 3 && wIs(w2.ev[2], configapi.ProposalEvent_UPDATED, "t1-2", 2, n0), "second-watcher-latest-state")
	if all || wid == "t1-2" {
		verifrt.Assert(w1.n == k+1 && wIs(w1.ev[k], configapi.ProposalEvent_UPDATED, "t1-2", 2, n0), "watcher-latest-state")
	} else {
		verifrt.Assert(w1.n == k, "watcher-of-another-record-not-disturbed")
	}
	verifrt.Cover("second-round")
}
