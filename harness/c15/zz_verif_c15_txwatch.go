//go:build verif

package transaction

// C15 (second sentence, sequentialised slice) for the transaction store: the REAL open() event pump and the REAL
// Watch() goroutines run as coroutines over the stub IndexedMap of zz_verif_c15.go. A watcher (all records / one
// record, with / without replay: one concrete case each) must be shown the latest state of every record written
// before (replay) and after it subscribed, with the stored index and version; a watcher of one record sees only that
// record; cancelling one watcher closes its channel, removes its registration and disturbs neither the store nor the
// other watchers (including another watcher of the same record).
//
// The schedule is ONE cooperative schedule per case (goroutines run to their next blocking channel operation when the
// harness yields); channels are FIFO queues. Preemptive interleavings of the pump with a cancellation are outside.

import (
	"context"
	"io"
	"time"

	"github.com/atomix/go-sdk/pkg/primitive/indexedmap"
	"github.com/google/uuid"
	configapi "github.com/onosproject/onos-api/go/onos/config/v2"
	"github.com/onosproject/onos-config/internal/verifrt"
)

type vEvent = indexedmap.Event[configapi.TransactionID, *configapi.Transaction]

// every Events() call gets its own stream (a buffered channel fed by the stub map on each write); Next() blocks
// until the next event, as the real stream does
var vStreams []chan vEvent

type vEvStream struct{ ch chan vEvent }

func (s *vEvStream) Next() (vEvent, error) {
	e, ok := <-s.ch
	if !ok {
		return nil, io.EOF
	}
	return e, nil
}

type vEntryStream struct{ next int }

func (s *vEntryStream) Next() (*vEntry, error) {
	for s.next < len(vLog) {
		r := &vLog[s.next]
		s.next++
		if r.present {
			return vMk(r), nil
		}
	}
	return nil, io.EOF
}

func (m *vIMap) Events(ctx context.Context, opts ...indexedmap.EventsOption) (indexedmap.EventStream[configapi.TransactionID, *configapi.Transaction], error) {
	ch := make(chan vEvent, 16)
	vStreams = append(vStreams, ch)
	return &vEvStream{ch: ch}, nil
}

func (m *vIMap) List(ctx context.Context) (indexedmap.EntryStream[configapi.TransactionID, *configapi.Transaction], error) {
	return &vEntryStream{}, nil
}

// vNote records the store event the real atomix primitive would publish for a write (called by the harness after each write)
func vNoteInsert(id configapi.TransactionID) {
	for i := range vLog {
		if vLog[i].present && vLog[i].id == id {
			for _, ch := range vStreams {
				ch <- &indexedmap.Inserted[configapi.TransactionID, *configapi.Transaction]{Entry: vMk(&vLog[i])}
			}
		}
	}
}

func vNoteUpdate(id configapi.TransactionID) {
	for i := range vLog {
		if vLog[i].present && vLog[i].id == id {
			for _, ch := range vStreams {
				ch <- &indexedmap.Updated[configapi.TransactionID, *configapi.Transaction]{Entry: vMk(&vLog[i])}
			}
		}
	}
}

// a cancellable context of the harness's own (the engine has no model of the context package)
type vCtx struct {
	done chan struct{}
	err  error
}

func (c *vCtx) Deadline() (time.Time, bool)       { return time.Time{}, false }
func (c *vCtx) Done() <-chan struct{}             { return c.done }
func (c *vCtx) Err() error                        { return c.err }
func (c *vCtx) Value(key interface{}) interface{} { return nil }
func (c *vCtx) cancel() {
	if c.err == nil {
		c.err = context.Canceled
		close(c.done)
	}
}
func vNewCtx() *vCtx { return &vCtx{done: make(chan struct{})} }

// what each watcher was shown so far; vDrain keeps receiving from EVERY channel until nothing more arrives (the real
// store delivers through unbuffered channels: a watcher that stops receiving holds up the others, so "eventually
// shown" presumes that every live watcher keeps receiving)
type vSeen struct {
	ch     chan configapi.TransactionEvent
	ev     [8]configapi.TransactionEvent
	n      int
	closed bool
}

var vW [3]vSeen

func vDrain() {
	for round := 0; round < 12; round++ {
		verifrt.Yield()
		progress := false
		for i := range vW {
			w := &vW[i]
			if w.closed {
				continue
			}
			select {
			case e, ok := <-w.ch:
				progress = true
				if !ok {
					w.closed = true
				} else if w.n < len(w.ev) {
					w.ev[w.n] = e
					w.n++
				}
			default:
			}
		}
		if !progress {
			return
		}
	}
}

func vIs(ev configapi.TransactionEvent, typ configapi.TransactionEvent_EventType, id configapi.TransactionID, index, version uint64, state int32) bool {
	return ev.Type == typ && ev.Transaction.ID == id && uint64(ev.Transaction.Index) == index && ev.Transaction.Version == version &&
		int32(ev.Transaction.Status.State) == state
}

func VerifC15TxWatch() {
	s := &transactionStore{
		transactions: &vIMap{},
		watchers:     make(map[uuid.UUID]chan<- configapi.TransactionEvent),
		idWatchers:   make(map[configapi.TransactionID]map[uuid.UUID]chan<- configapi.TransactionEvent),
	}
	bg := vNewCtx()
	if s.open() != nil { // the one event pump of the store
		verifrt.Assert(false, "open")
		return
	}
	v0 := verifrt.NondetUint64("version")
	i0 := verifrt.NondetUint64("index")
	s0 := verifrt.NondetInt32("state0")
	s1 := verifrt.NondetInt32("state1")
	s2 := verifrt.NondetInt32("state2")
	verifrt.Assume(v0 >= 1 && v0 < 1000 && i0 >= 1 && i0 < 1000)
	vLog[0] = vRec{present: true, version: v0, index: i0, state: s0, id: "tx-a"}
	vLastIdx = i0

	// the watcher under test: 0 all records, 1 all with replay, 2 record tx-a, 3 tx-a with replay, 4 tx-b (not yet written) with replay
	mode := verifrt.Fork("mode", 5)
	var opts []WatchOption
	all := mode <= 1
	replay := mode == 1 || mode == 3 || mode == 4
	var wid configapi.TransactionID
	if mode == 2 || mode == 3 {
		wid = "tx-a"
	}
	if mode == 4 {
		wid = "tx-b"
	}
	if !all {
		opts = append(opts, WithTransactionID(wid))
	}
	if replay {
		opts = append(opts, WithReplay())
	}
	c1, c2, c3 := vNewCtx(), vNewCtx(), vNewCtx()
	for i := range vW {
		vW[i].ch = make(chan configapi.TransactionEvent)
	}
	w1, w2, w3 := &vW[0], &vW[1], &vW[2]
	e1 := s.Watch(c1, w1.ch, opts...)
	e2 := s.Watch(c2, w2.ch)                            // another watcher of all records
	e3 := s.Watch(c3, w3.ch, WithTransactionID("tx-b")) // another watcher of one record (the same one in mode 4)
	verifrt.Assert(e1 == nil && e2 == nil && e3 == nil, "watch-accepted")

	// replay: the latest state of every record written before the subscription
	vDrain()
	k := 0
	if replay && mode != 4 {
		verifrt.Assert(w1.n == 1 && vIs(w1.ev[0], configapi.TransactionEvent_REPLAYED, "tx-a", i0, v0, s0), "replay-shows-the-stored-record")
		k = 1
	}
	verifrt.Assert(w1.n == k && w2.n == 0 && w3.n == 0 && !w1.closed, "nothing-else-before-a-write")

	// writes after the subscription: update tx-a, create tx-b
	a, errA := s.Get(bg, "tx-a")
	if errA != nil || a == nil {
		verifrt.Assert(false, "get-stored-record")
		return
	}
	a.Status.State = configapi.TransactionStatus_State(s1)
	errU := s.UpdateStatus(bg, a)
	vNoteUpdate("tx-a")
	b := &configapi.Transaction{ID: "tx-b"}
	b.Status.State = configapi.TransactionStatus_State(s2)
	errC := s.Create(bg, b)
	vNoteInsert("tx-b")
	verifrt.Assert(errU == nil && errC == nil, "writes-succeed-with-watchers-registered")
	vDrain()
	if all || wid == "tx-a" {
		verifrt.Assert(w1.n > k && vIs(w1.ev[k], configapi.TransactionEvent_UPDATED, "tx-a", i0, v0+1, s1), "update-after-subscribing-is-shown-with-its-version")
		k++
	}
	if all || wid == "tx-b" {
		verifrt.Assert(w1.n > k && vIs(w1.ev[k], configapi.TransactionEvent_CREATED, "tx-b", i0+1, 1, s2), "create-after-subscribing-is-shown-with-its-index")
		k++
	}
	verifrt.Assert(w1.n == k && !w1.closed, "a-watcher-of-one-record-sees-only-that-record-and-nothing-twice")
	// the other watchers saw the same writes
	verifrt.Assert(w2.n == 2 && vIs(w2.ev[0], configapi.TransactionEvent_UPDATED, "tx-a", i0, v0+1, s1), "second-watcher-update")
	verifrt.Assert(w2.n == 2 && vIs(w2.ev[1], configapi.TransactionEvent_CREATED, "tx-b", i0+1, 1, s2), "second-watcher-create")
	verifrt.Assert(w3.n == 1 && vIs(w3.ev[0], configapi.TransactionEvent_CREATED, "tx-b", i0+1, 1, s2), "third-watcher-create")
	verifrt.Cover("watchers-delivered")

	// cancelling the watcher under test closes its channel and disturbs nobody else. inflight: the cancellation arrives
	// while the next event is being delivered (the pump may already have picked the cancelled watcher as a recipient)
	b2, errB := s.Get(bg, "tx-b")
	if errB != nil || b2 == nil {
		verifrt.Assert(false, "store-readable")
		return
	}
	inflight := verifrt.Fork("inflight", 2) == 1
	if !inflight {
		c1.cancel()
		vDrain()
		verifrt.Assert(w1.closed && w1.n == k, "cancelled-watch-channel-is-closed")
		verifrt.Assert(len(s.watchers) == 1 && len(s.idWatchers) == 1, "cancelled-watcher-unregistered-others-kept")
	}
	b2.Status.State = configapi.TransactionStatus_State(s0)
	errU2 := s.UpdateStatus(bg, b2)
	vNoteUpdate("tx-b")
	verifrt.Assert(errU2 == nil, "store-writable-after-cancel")
	if inflight {
		c1.cancel()
	}
	vDrain()
	verifrt.Assert(w1.closed, "cancelled-watch-channel-is-closed-2")
	verifrt.Assert(w2.n == 3 && vIs(w2.ev[2], configapi.TransactionEvent_UPDATED, "tx-b", i0+1, 2, s0), "second-watcher-still-served-after-cancel")
	verifrt.Assert(w3.n == 2 && vIs(w3.ev[1], configapi.TransactionEvent_UPDATED, "tx-b", i0+1, 2, s0), "third-watcher-of-the-same-record-still-served-after-cancel")
	// and the one after that (a pump stuck on the cancelled watcher would show here)
	a2, errA2 := s.Get(bg, "tx-a")
	if errA2 != nil || a2 == nil {
		verifrt.Assert(false, "store-readable-after-cancel")
		return
	}
	a2.Status.State = configapi.TransactionStatus_State(s2)
	errU3 := s.UpdateStatus(bg, a2)
	vNoteUpdate("tx-a")
	vDrain()
	verifrt.Assert(errU3 == nil && w2.n == 4 && vIs(w2.ev[3], configapi.TransactionEvent_UPDATED, "tx-a", i0, v0+2, s2), "second-watcher-served-again")
	verifrt.Assert(len(s.watchers) == 1 && len(s.idWatchers) == 1, "cancelled-watcher-unregistered-others-kept-2")
	verifrt.Cover("after-cancel")
	c2.cancel()
	c3.cancel()
	vDrain()
	verifrt.Assert(w2.closed && w3.closed && len(s.watchers) == 0 && len(s.idWatchers) == 0, "all-registrations-removed")
}

func btoi(b bool) int {
	if b {
		return 1
	}
	return 0
}
