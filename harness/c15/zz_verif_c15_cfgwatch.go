//go:build verif

package configuration

// C15 (second sentence, sequentialised slice) for the v2 configuration store: the REAL open() pump (with populate
// through the name-resolved path-value primitives) and the REAL Watch() goroutines as coroutines; see
// zz_verif_c15_txwatch.go of the transaction store for the scenario and what is outside.

import (
	"context"
	"io"
	"time"

	_map "github.com/atomix/go-sdk/pkg/primitive/map"
	"github.com/atomix/go-sdk/pkg/primitive"
	"github.com/google/uuid"
	configapi "github.com/onosproject/onos-api/go/onos/config/v2"
	"github.com/onosproject/onos-config/internal/verifrt"
)

type wcEvent = _map.Event[configapi.ConfigurationID, *configapi.Configuration]

var wcStreams []chan wcEvent

type wcEvStream struct{ ch chan wcEvent }

func (s *wcEvStream) Next() (wcEvent, error) {
	e, ok := <-s.ch
	if !ok {
		return nil, io.EOF
	}
	return e, nil
}

type wcEntryStream struct{ done bool }

func (s *wcEntryStream) Next() (*vCfgEntry, error) {
	if s.done || VConfig == nil {
		return nil, io.EOF
	}
	s.done = true
	e := &vCfgEntry{Key: VConfigID}
	e.Value = vCloneCfg(VConfig)
	e.Version = primitive.Version(VConfigVer)
	return e, nil
}

func (m *vCfgMap) Events(ctx context.Context, opts ..._map.EventsOption) (_map.EventStream[configapi.ConfigurationID, *configapi.Configuration], error) {
	ch := make(chan wcEvent, 16)
	wcStreams = append(wcStreams, ch)
	return &wcEvStream{ch: ch}, nil
}

func (m *vCfgMap) List(ctx context.Context) (_map.EntryStream[configapi.ConfigurationID, *configapi.Configuration], error) {
	return &wcEntryStream{}, nil
}

// the event the real primitive publishes for the update just made
func wcNoteUpdate() {
	for _, ch := range wcStreams {
		e := &vCfgEntry{Key: VConfigID}
		e.Value = vCloneCfg(VConfig)
		e.Version = primitive.Version(VConfigVer)
		ch <- &_map.Updated[configapi.ConfigurationID, *configapi.Configuration]{Entry: e}
	}
}

type wcCtx struct {
	done chan struct{}
	err  error
}

func (c *wcCtx) Deadline() (time.Time, bool)       { return time.Time{}, false }
func (c *wcCtx) Done() <-chan struct{}             { return c.done }
func (c *wcCtx) Err() error                        { return c.err }
func (c *wcCtx) Value(key interface{}) interface{} { return nil }
func (c *wcCtx) cancel() {
	if c.err == nil {
		c.err = context.Canceled
		close(c.done)
	}
}
func wcNewCtx() *wcCtx { return &wcCtx{done: make(chan struct{})} }

type wcSeen struct {
	ch     chan configapi.ConfigurationEvent
	ev     [8]configapi.ConfigurationEvent
	n      int
	closed bool
}

var wcW [3]wcSeen

func wcDrain() {
	for round := 0; round < 12; round++ {
		verifrt.Yield()
		progress := false
		for i := range wcW {
			w := &wcW[i]
			if w.closed {
				continue
			}
			select {
			case e, ok := <-w.ch:
				progress = true
				if !ok {
					w.closed = true
				} else if w.n < len(w.ev) {
					w.ev[w.n] = e
					w.n++
				}
			default:
			}
		}
		if !progress {
			return
		}
	}
}

func wcIs(ev configapi.ConfigurationEvent, typ configapi.ConfigurationEvent_EventType, version, committed uint64) bool {
	return ev.Type == typ && ev.Configuration.ID == VConfigID && ev.Configuration.Version == version &&
		uint64(ev.Configuration.Status.Committed.Index) == committed
}

func VerifC15CfgWatch() {
	s := &configurationStore{
		client:         vClient(),
		configurations: &vCfgMap{},
		committed:      make(map[configapi.ConfigurationID]_map.Map[string, *configapi.PathValue]),
		applied:        make(map[configapi.ConfigurationID]_map.Map[string, *configapi.PathValue]),
		watchers:       make(map[uuid.UUID]chan<- configapi.ConfigurationEvent),
		idWatchers:     make(map[configapi.ConfigurationID]map[uuid.UUID]chan<- configapi.ConfigurationEvent),
	}
	bg := wcNewCtx()
	if s.open() != nil {
		verifrt.Assert(false, "open")
		return
	}
	v0 := verifrt.NondetUint64("version")
	c0 := verifrt.NondetUint64("committed0")
	c1 := verifrt.NondetUint64("committed1")
	c2 := verifrt.NondetUint64("committed2")
	verifrt.Assume(v0 >= 1 && v0 < 1000)
	VConfig = &configapi.Configuration{ID: VConfigID, TargetID: "t1"}
	VConfig.Revision = 1
	VConfig.Status.Committed.Index = configapi.Index(c0)
	VConfigVer = v0

	// 0 all records, 1 all with replay, 2 this record, 3 this record with replay, 4 another record with replay
	mode := verifrt.Fork("mode", 5)
	var opts []WatchOption
	all := mode <= 1
	replay := mode == 1 || mode == 3 || mode == 4
	mine := mode != 4
	if mode == 2 || mode == 3 {
		opts = append(opts, WithConfigurationID(VConfigID))
	}
	if mode == 4 {
		opts = append(opts, WithConfigurationID("t2-ty-1"))
	}
	if replay {
		opts = append(opts, WithReplay())
	}
	_ = all
	c1x, c2x, c3x := wcNewCtx(), wcNewCtx(), wcNewCtx()
	for i := range wcW {
		wcW[i].ch = make(chan configapi.ConfigurationEvent)
	}
	w1, w2, w3 := &wcW[0], &wcW[1], &wcW[2]
	e1 := s.Watch(c1x, w1.ch, opts...)
	e2 := s.Watch(c2x, w2.ch)
	e3 := s.Watch(c3x, w3.ch, WithConfigurationID(VConfigID))
	verifrt.Assert(e1 == nil && e2 == nil && e3 == nil, "watch-accepted")
	wcDrain()
	k := 0
	if replay && mine {
		verifrt.Assert(w1.n == 1 && wcIs(w1.ev[0], configapi.ConfigurationEvent_REPLAYED, v0, c0), "replay-shows-the-stored-record")
		k = 1
	}
	verifrt.Assert(w1.n == k && w2.n == 0 && w3.n == 0 && !w1.closed, "nothing-else-before-a-write")

	a, errA := s.Get(bg, VConfigID)
	if errA != nil || a == nil {
		verifrt.Assert(false, "get-stored-record")
		return
	}
	a.Status.Committed.Index = configapi.Index(c1)
	errU := s.UpdateStatus(bg, a)
	wcNoteUpdate()
	verifrt.Assert(errU == nil, "write-succeeds-with-watchers-registered")
	wcDrain()
	if mine {
		verifrt.Assert(w1.n == k+1 && wcIs(w1.ev[k], configapi.ConfigurationEvent_UPDATED, v0+1, c1), "update-after-subscribing-is-shown-with-its-version")
		k++
	}
	verifrt.Assert(w1.n == k && !w1.closed, "a-watcher-of-one-record-sees-only-that-record-and-nothing-twice")
	verifrt.Assert(w2.n == 1 && wcIs(w2.ev[0], configapi.ConfigurationEvent_UPDATED, v0+1, c1), "second-watcher-update")
	verifrt.Assert(w3.n == 1 && wcIs(w3.ev[0], configapi.ConfigurationEvent_UPDATED, v0+1, c1), "third-watcher-update")
	verifrt.Cover("watchers-delivered")

	inflight := verifrt.Fork("inflight", 2) == 1
	if !inflight {
		c1x.cancel()
		wcDrain()
		verifrt.Assert(w1.closed && w1.n == k, "cancelled-watch-channel-is-closed")
		verifrt.Assert(len(s.watchers)+len(s.idWatchers) == 2, "cancelled-watcher-unregistered-others-kept")
	}
	a.Status.Committed.Index = configapi.Index(c2)
	errU2 := s.UpdateStatus(bg, a)
	wcNoteUpdate()
	verifrt.Assert(errU2 == nil, "store-writable-after-cancel")
	if inflight {
		c1x.cancel()
	}
	wcDrain()
	verifrt.Assert(w1.closed, "cancelled-watch-channel-is-closed-2")
	verifrt.Assert(w2.n == 2 && wcIs(w2.ev[1], configapi.ConfigurationEvent_UPDATED, v0+2, c2), "second-watcher-still-served-after-cancel")
	verifrt.Assert(w3.n == 2 && wcIs(w3.ev[1], configapi.ConfigurationEvent_UPDATED, v0+2, c2), "third-watcher-of-the-same-record-still-served-after-cancel")
	a.Status.Committed.Index = configapi.Index(c0)
	errU3 := s.UpdateStatus(bg, a)
	wcNoteUpdate()
	wcDrain()
	verifrt.Assert(errU3 == nil && w2.n == 3 && wcIs(w2.ev[2], configapi.ConfigurationEvent_UPDATED, v0+3, c0), "second-watcher-served-again")
	verifrt.Assert(w3.n == 3 && wcIs(w3.ev[2], configapi.ConfigurationEvent_UPDATED, v0+3, c0), "third-watcher-served-again")
	verifrt.Assert(len(s.watchers) == 1 && len(s.idWatchers) == 1, "cancelled-watcher-unregistered-others-kept-2")
	verifrt.Cover("after-cancel")
	c2x.cancel()
	c3x.cancel()
	wcDrain()
	verifrt.Assert(w2.closed && w3.closed && len(s.watchers) == 0 && len(s.idWatchers) == 0, "all-registrations-removed")
}
