//go:build verif

package tree

import (
	configapi "github.com/onosproject/onos-api/go/onos/config/v3"
	"github.com/onosproject/onos-config/internal/verifrt"
)

// Universe: containers at depth 1-2, sibling leaves whose names share a textual prefix, a single-key list with
// numeric-looking keys that are textual prefixes of each other (1, 10) incl. an explicit key leaf, a two-key list.
// Kind: 0 = leaf (value or tombstone), 1 = inner node (tombstone only).
const vN = 12

func vU(i int) string {
	switch i {
	case 0:
		return "/a"
	case 1:
		return "/a/b"
	case 2:
		return "/a/b/c"
	case 3:
		return "/a/bc"
	case 4:
		return "/a/b-x"
	case 5:
		return "/l[k=1]/x"
	case 6:
		return "/l[k=10]/x"
	case 7:
		return "/l[k=1]/k"
	case 8:
		return "/t[a=1][b=q/r]/x"
	case 9:
		return "/t[a=1][b=Q/r]/x"
	case 10:
		return "/l[k=1]"
	}
	return "/l"
}

func vInner(i int) bool { return i == 0 || i == 1 || i == 10 || i == 11 }

// element-boundary ancestor-or-self relation, written out from the parsed elements (never from string prefixes)
func vAnc(i, j int) bool {
	if i == j {
		return true
	}
	switch i {
	case 0:
		return j >= 1 && j <= 4
	case 1:
		return j == 2
	case 10:
		return j == 5 || j == 7
	case 11:
		return j == 5 || j == 6 || j == 7 || j == 10
	}
	return false
}

var vSym [vN]string // symbolic leaf values (case-split mode)
var vCase bool

func vVal(j int) string {
	if vCase {
		return vSym[j]
	}
	return "v" + "0123456789"[j:j+1]
}

type vIn struct {
	present, deleted [vN]bool
}

// sub-universes (case split): containers and prefix siblings; the single-key list; the two-key list with a container
func vInGroup(g, i int) bool {
	switch g {
	case 0:
		return i <= 4
	case 1:
		return i == 5 || i == 6 || i == 7 || i == 10 || i == 11
	}
	return i == 8 || i == 9 || i == 0 || i == 3 || i == 6
}

func vGen() (vIn, []configapi.PathValue) { return vGenMode(false) }

// vGenMode: symbolic presence / tombstone bits (casesplit == false), or one case per presence shape with symbolic
// leaf values (casesplit == true)
func vGenMode(casesplit bool) (vIn, []configapi.PathValue) {
	var in vIn
	var pvs []configapi.PathValue
	n := 0
	g := verifrt.Fork("group", 3)
	for i := 0; i < vN; i++ {
		if !vInGroup(g, i) {
			continue
		}
		if casesplit {
			n := 3
			if vInner(i) {
				n = 2
			}
			k := verifrt.Fork("node"+"0123456789ab"[i:i+1], n) // 0 absent, 1 tombstone, 2 value
			in.present[i], in.deleted[i] = k != 0, k == 1
		} else {
			in.present[i] = verifrt.NondetBool("present")
			in.deleted[i] = verifrt.NondetBool("deleted")
		}
		if vInner(i) && in.present[i] {
			verifrt.Assume(in.deleted[i]) // an inner node is only ever stored as a tombstone
		}
		if in.present[i] {
			n++
			pv := configapi.PathValue{Path: vU(i), Deleted: in.deleted[i]}
			if !in.deleted[i] {
				if i == 7 {
					pv.Value = *configapi.NewTypedValueString("1")
				} else if casesplit {
					vSym[i] = verifrt.NondetString("val", 2, "v1]")
					pv.Value = *configapi.NewTypedValueString(vSym[i])
				} else {
					pv.Value = *configapi.NewTypedValueString(vVal(i))
				}
			}
			pvs = append(pvs, pv)
		}
	}
	verifrt.Assume(n <= verifrt.Param("maxpaths"))
	return in, pvs
}

// live: present, not deleted, no tombstone on itself or on an element-boundary ancestor
func (in *vIn) live(j int) bool {
	if !in.present[j] || in.deleted[j] {
		return false
	}
	for i := 0; i < vN; i++ {
		if in.present[i] && in.deleted[i] && vAnc(i, j) {
			return false
		}
	}
	return true
}

// top tombstone: deleted, present, no other tombstone on a proper ancestor
func (in *vIn) topTombstone(j int) bool {
	if !in.present[j] || !in.deleted[j] {
		return false
	}
	for i := 0; i < vN; i++ {
		if i != j && in.present[i] && in.deleted[i] && vAnc(i, j) {
			return false
		}
	}
	return true
}

// VerifC18Prune: PrunePathValues / PrunePathMap remove exactly the deleted nodes and their descendants.
func VerifC18Prune() {
	in, pvs := vGen()
	leaveTop := verifrt.NondetBool("leavetop")
	out := PrunePathValues(pvs, leaveTop)
	verifrt.Cover("pruned")
	for j := 0; j < vN; j++ {
		kept := 0
		for _, pv := range out {
			if pv.Path == vU(j) {
				kept++
			}
		}
		want := 0
		if in.live(j) || (leaveTop && in.topTombstone(j)) {
			want = 1
		}
		verifrt.Assert(kept == want, "prune-keeps-exactly-live-paths-and-top-tombstones")
	}
	m := make(map[string]configapi.PathValue)
	for _, pv := range pvs {
		m[pv.Path] = pv
	}
	pm := PrunePathMap(m, leaveTop)
	verifrt.Assert(len(pm) == len(out), "prune-map-agrees-with-prune-list")
}

func vChild(node interface{}, name string) (interface{}, bool) {
	m, ok := node.(map[string]interface{})
	if !ok {
		return nil, false
	}
	c, ok := m[name]
	return c, ok
}

func vStr(v interface{}) (string, bool) {
	s, ok := v.(string)
	return s, ok
}

// entries of list `name` whose key leaves equal the given key values; returns (count, last matching entry)
func vEntries(root interface{}, name string, k1, v1, k2, v2 string) (int, interface{}, int) {
	l, ok := vChild(root, name)
	if !ok {
		return 0, nil, 0
	}
	sl, ok := l.([]interface{})
	if !ok {
		return 0, nil, -1
	}
	n := 0
	var last interface{}
	for _, e := range sl {
		a, ok1 := vChild(e, k1)
		as, ok1s := vStr(a)
		match := ok1 && ok1s && as == v1
		if k2 != "" {
			b, ok2 := vChild(e, k2)
			bs, ok2s := vStr(b)
			match = match && ok2 && ok2s && bs == v2
		}
		if match {
			n++
			last = e
		}
	}
	return n, last, len(sl)
}

// VerifC18Tree: the document built from a set of path/values contains exactly the live leaves; list entries are
// identified by their full key sets: distinct entries never merged, one entry never split.
func VerifC18Tree() {
	vCase = true
	in, pvs := vGenMode(true)
	rfc := verifrt.NondetBool("rfc7951")
	doc, err := BuildTree(pvs, rfc)
	verifrt.Cover("built")
	verifrt.Assert(err == nil, "tree-builds")
	if err != nil {
		return
	}
	root := verifrt.JSONValue(doc)
	// plain leaves under containers
	a, okA := vChild(root, "a")
	b, okB := vChild(a, "b")
	for _, j := range []int{2, 3, 4} {
		var v interface{}
		var ok bool
		switch j {
		case 2:
			v, ok = vChild(b, "c")
			ok = ok && okA && okB
		case 3:
			v, ok = vChild(a, "bc")
			ok = ok && okA
		case 4:
			v, ok = vChild(a, "b-x")
			ok = ok && okA
		}
		s, isStr := vStr(v)
		verifrt.Assert(ok == in.live(j), "leaf-in-document-iff-live")
		if ok {
			verifrt.Assert(isStr && s == vVal(j), "leaf-value")
		}
	}
	// single-key list: entries k=1 (leaves 5, 7) and k=10 (leaf 6)
	n1, e1, tot := vEntries(root, "l", "k", "1", "", "")
	n10, e10, _ := vEntries(root, "l", "k", "10", "", "")
	want1, want10 := 0, 0
	if in.live(5) || in.live(7) {
		want1 = 1
	}
	if in.live(6) {
		want10 = 1
	}
	verifrt.Assert(n1 == want1 && n10 == want10, "one-list-entry-per-live-key-set")
	verifrt.Assert(tot == want1+want10, "no-other-list-entries")
	x1, ok := vChild(e1, "x")
	xs, _ := vStr(x1)
	verifrt.Assert((n1 == 1 && ok) == in.live(5), "list-leaf-in-document-iff-live")
	if n1 == 1 && ok {
		verifrt.Assert(xs == vVal(5), "list-leaf-value")
	}
	x10, ok := vChild(e10, "x")
	xs10, _ := vStr(x10)
	verifrt.Assert((n10 == 1 && ok) == in.live(6), "list-leaf-in-document-iff-live")
	if n10 == 1 && ok {
		verifrt.Assert(xs10 == vVal(6), "list-leaf-value")
	}
	// two-key list: entries (1,2) and (1,3) share one key value and must stay apart
	n12, e12, tot2 := vEntries(root, "t", "a", "1", "b", "q/r")
	n13, e13, _ := vEntries(root, "t", "a", "1", "b", "Q/r")
	w12, w13 := 0, 0
	if in.live(8) {
		w12 = 1
	}
	if in.live(9) {
		w13 = 1
	}
	verifrt.Assert(n12 == w12 && n13 == w13 && tot2 == w12+w13, "two-key-entries-neither-merged-nor-split")
	if n12 == 1 {
		x, ok := vChild(e12, "x")
		s, _ := vStr(x)
		verifrt.Assert(ok && s == vVal(8), "two-key-leaf-value")
	}
	if n13 == 1 {
		x, ok := vChild(e13, "x")
		s, _ := vStr(x)
		verifrt.Assert(ok && s == vVal(9), "two-key-leaf-value")
	}
}
