//go:build verif

package mastership

// C09 (wake-ups): the REAL configuration-store watcher of the mastership controller: a configuration event wakes
// that configuration (eventCfg of the work-set model). The topology watcher is outside.

import (
	"context"

	configapi "github.com/onosproject/onos-api/go/onos/config/v2"
	"github.com/onosproject/onos-config/internal/verifrt"
	configurationstore "github.com/onosproject/onos-config/pkg/store/v2/configuration"
	"github.com/onosproject/onos-lib-go/pkg/controller"
)

type wCfgStore struct {
	configurationstore.Store
	ch chan<- configapi.ConfigurationEvent
}

func (s *wCfgStore) Watch(ctx context.Context, ch chan<- configapi.ConfigurationEvent, opts ...configurationstore.WatchOption) error {
	s.ch = ch
	return nil
}

func VerifC09WatchMs() {
	cs := &wCfgStore{}
	ch := make(chan controller.ID, 16)
	e1 := (&ConfigurationStoreWatcher{configurations: cs}).Start(ch)
	verifrt.Assert(e1 == nil && cs.ch != nil, "watcher-subscribes")
	if cs.ch == nil {
		return
	}
	cid := configapi.ConfigurationID("t1-ty-1")
	if verifrt.NondetBool("other-configuration") {
		cid = "t2-ty-1"
	}
	cfg := configapi.Configuration{ID: cid, TargetID: "t1", Index: configapi.Index(verifrt.NondetUint64("cfg.index"))}
	cs.ch <- configapi.ConfigurationEvent{Type: configapi.ConfigurationEvent_EventType(verifrt.NondetInt32("cfg.eventtype")), Configuration: cfg}
	verifrt.Yield()
	var id controller.ID
	ok := false
	select {
	case id = <-ch:
		ok = true
	default:
	}
	v, isID := id.Value.(configapi.ConfigurationID)
	verifrt.Assert(ok && isID && v == cid, "configuration-event-wakes-that-configuration")
	verifrt.Yield()
	select {
	case <-ch:
		verifrt.Assert(false, "nothing-else-is-woken")
	default:
	}
	verifrt.Cover("mapped")
}
