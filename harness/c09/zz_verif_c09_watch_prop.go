//go:build verif

package proposal

// C09 (wake-ups): the REAL watchers of the proposal controller vs the mapping of the work-set model (eventProp,
// eventCfg): a proposal event wakes that proposal; a configuration event wakes the proposals of that target at
// Configuration.Index and at Status.Applied.Index.

import (
	"context"

	configapi "github.com/onosproject/onos-api/go/onos/config/v2"
	"github.com/onosproject/onos-config/internal/verifrt"
	configurationstore "github.com/onosproject/onos-config/pkg/store/v2/configuration"
	proposalstore "github.com/onosproject/onos-config/pkg/store/v2/proposal"
	"github.com/onosproject/onos-lib-go/pkg/controller"
)

type wPropStore struct {
	proposalstore.Store
	ch chan<- configapi.ProposalEvent
}

func (s *wPropStore) Watch(ctx context.Context, ch chan<- configapi.ProposalEvent, opts ...proposalstore.WatchOption) error {
	s.ch = ch
	return nil
}

type wCfgStore struct {
	configurationstore.Store
	ch chan<- configapi.ConfigurationEvent
}

func (s *wCfgStore) Watch(ctx context.Context, ch chan<- configapi.ConfigurationEvent, opts ...configurationstore.WatchOption) error {
	s.ch = ch
	return nil
}

func wNext(ch chan controller.ID) (controller.ID, bool) {
	verifrt.Yield()
	select {
	case id := <-ch:
		return id, true
	default:
		return controller.ID{}, false
	}
}

func VerifC09WatchProp() {
	ps, cs := &wPropStore{}, &wCfgStore{}
	ch := make(chan controller.ID, 16)
	e1 := (&Watcher{proposals: ps}).Start(ch)
	e2 := (&ConfigurationWatcher{configurations: cs}).Start(ch)
	verifrt.Assert(e1 == nil && e2 == nil && ps.ch != nil && cs.ch != nil, "watchers-subscribe")
	if ps.ch == nil || cs.ch == nil {
		return
	}
	pid := configapi.ProposalID("t1-1")
	if verifrt.NondetBool("other-proposal") {
		pid = "t2-5"
	}
	ps.ch <- configapi.ProposalEvent{Type: configapi.ProposalEvent_EventType(verifrt.NondetInt32("prop.eventtype")), Proposal: configapi.Proposal{ID: pid}}
	id, ok := wNext(ch)
	v, isID := id.Value.(configapi.ProposalID)
	verifrt.Assert(ok && isID && v == pid, "proposal-event-wakes-that-proposal")
	// a configuration event: concrete small indexes (the proposal id is a rendered text), every pair
	idx := configapi.Index(verifrt.Fork("cfg.index", 3))
	applied := configapi.Index(verifrt.Fork("cfg.applied", 3))
	cfg := configapi.Configuration{ID: "t1-ty-1", TargetID: "t1", Index: idx}
	cfg.Status.Applied.Index = applied
	cfg.Status.Committed.Index = configapi.Index(verifrt.NondetUint64("cfg.committed"))
	cs.ch <- configapi.ConfigurationEvent{Type: configapi.ConfigurationEvent_EventType(verifrt.NondetInt32("cfg.eventtype")), Configuration: cfg}
	a, okA := wNext(ch)
	b, okB := wNext(ch)
	av, isA := a.Value.(configapi.ProposalID)
	bv, isB := b.Value.(configapi.ProposalID)
	wantIdx, wantApplied := proposalstore.NewID("t1", idx), proposalstore.NewID("t1", applied)
	verifrt.Assert(okA && okB && isA && isB, "configuration-event-wakes-two-proposals")
	verifrt.Assert((av == wantIdx && bv == wantApplied) || (av == wantApplied && bv == wantIdx), "configuration-event-wakes-the-proposals-at-index-and-at-applied-index")
	_, ok = wNext(ch)
	verifrt.Assert(!ok, "nothing-else-is-woken")
	verifrt.Cover("mapped")
}
