//go:build verif

package transaction

// C09 (wake-ups): the REAL watchers of the transaction controller map store events to reconcile requests exactly as the
// work-set model of harness/v2/step.go assumes (eventTx, eventProp): a transaction event wakes that transaction, a
// proposal event wakes the proposal's transaction; every event is mapped (none dropped), in order.

import (
	"context"

	configapi "github.com/onosproject/onos-api/go/onos/config/v2"
	"github.com/onosproject/onos-config/internal/verifrt"
	proposalstore "github.com/onosproject/onos-config/pkg/store/v2/proposal"
	transactionstore "github.com/onosproject/onos-config/pkg/store/v2/transaction"
	"github.com/onosproject/onos-lib-go/pkg/controller"
)

type wTxStore struct {
	transactionstore.Store
	ch chan<- configapi.TransactionEvent
}

func (s *wTxStore) Watch(ctx context.Context, ch chan<- configapi.TransactionEvent, opts ...transactionstore.WatchOption) error {
	s.ch = ch
	return nil
}

type wPropStore struct {
	proposalstore.Store
	ch chan<- configapi.ProposalEvent
}

func (s *wPropStore) Watch(ctx context.Context, ch chan<- configapi.ProposalEvent, opts ...proposalstore.WatchOption) error {
	s.ch = ch
	return nil
}

func wNext(ch chan controller.ID) (controller.ID, bool) {
	verifrt.Yield()
	select {
	case id := <-ch:
		return id, true
	default:
		return controller.ID{}, false
	}
}

func VerifC09WatchTx() {
	ts, ps := &wTxStore{}, &wPropStore{}
	ch := make(chan controller.ID, 16)
	e1 := (&Watcher{transactions: ts}).Start(ch)
	e2 := (&ProposalWatcher{proposals: ps}).Start(ch)
	verifrt.Assert(e1 == nil && e2 == nil && ts.ch != nil && ps.ch != nil, "watchers-subscribe")
	if ts.ch == nil || ps.ch == nil {
		return
	}
	i1 := configapi.Index(verifrt.NondetUint64("tx.index"))
	i2 := configapi.Index(verifrt.NondetUint64("prop.txindex"))
	i3 := configapi.Index(verifrt.NondetUint64("tx.index2"))
	typ := configapi.TransactionEvent_EventType(verifrt.NondetInt32("tx.eventtype"))
	ts.ch <- configapi.TransactionEvent{Type: typ, Transaction: configapi.Transaction{ID: "tx-a", Index: i1}}
	id, ok := wNext(ch)
	v, isIdx := id.Value.(configapi.Index)
	verifrt.Assert(ok && isIdx && v == i1, "transaction-event-wakes-that-transaction")
	ptyp := configapi.ProposalEvent_EventType(verifrt.NondetInt32("prop.eventtype"))
	ps.ch <- configapi.ProposalEvent{Type: ptyp, Proposal: configapi.Proposal{ID: "t1-7", TargetID: "t1", TransactionIndex: i2}}
	id, ok = wNext(ch)
	v, isIdx = id.Value.(configapi.Index)
	verifrt.Assert(ok && isIdx && v == i2, "proposal-event-wakes-its-transaction")
	ts.ch <- configapi.TransactionEvent{Type: typ, Transaction: configapi.Transaction{ID: "tx-b", Index: i3}}
	id, ok = wNext(ch)
	v, isIdx = id.Value.(configapi.Index)
	verifrt.Assert(ok && isIdx && v == i3, "every-event-is-mapped")
	_, ok = wNext(ch)
	verifrt.Assert(!ok, "nothing-else-is-woken")
	verifrt.Cover("mapped")
}
