//go:build verif

package gnmi

import (
	"context"

	"github.com/gogo/protobuf/proto"

	"github.com/onosproject/onos-api/go/onos/config/admin"
	configapi "github.com/onosproject/onos-api/go/onos/config/v2"
	"github.com/onosproject/onos-config/internal/verifrt"
	"github.com/onosproject/onos-config/pkg/pluginregistry"
	pathutils "github.com/onosproject/onos-config/pkg/utils/path"
	"github.com/openconfig/gnmi/proto/gnmi"
	"github.com/openconfig/gnmi/proto/gnmi_ext"
)

// model of (ty,1) for C13: leaves /a/bc and /a/d, list l with key k and leaf x
type c13Plugin struct{ pluginregistry.ModelPlugin }

func (p *c13Plugin) GetInfo() *pluginregistry.ModelPluginInfo {
	return &pluginregistry.ModelPluginInfo{
		Info: admin.ModelInfo{Name: "ty", Version: "1"},
		ReadWritePaths: pathutils.ReadWritePathMap{
			"/a/bc":     admin.ReadWritePath{ValueType: configapi.ValueType_STRING},
			"/a/d":      admin.ReadWritePath{ValueType: configapi.ValueType_STRING},
			"/l[k=*]/k": admin.ReadWritePath{ValueType: configapi.ValueType_STRING, IsAKey: true, AttrName: "k"},
			"/l[k=*]/x": admin.ReadWritePath{ValueType: configapi.ValueType_STRING},
		},
	}
}

type c13Registry struct{ pluginregistry.PluginRegistry }

func (r *c13Registry) GetPlugin(model configapi.TargetType, version configapi.TargetVersion) (pluginregistry.ModelPlugin, bool) {
	return &c13Plugin{}, model == "ty" && version == "1"
}

// pool of operation paths; the classification is written from the parsed elements:
//
//	writable: an update is admissible (exact writable leaf); deletable: the node is a model node (leaf, list entry, container)
const c13NP = 8

func c13Elems(i int) []*gnmi.PathElem {
	switch i {
	case 0:
		return []*gnmi.PathElem{{Name: "a"}, {Name: "bc"}}
	case 1:
		return []*gnmi.PathElem{{Name: "a"}, {Name: "d"}}
	case 2:
		return []*gnmi.PathElem{{Name: "a"}, {Name: "zz"}} // not in the model
	case 3:
		return []*gnmi.PathElem{{Name: "a"}, {Name: "b"}} // textual prefix of /a/bc, not a model node
	case 4:
		return []*gnmi.PathElem{{Name: "l", Key: map[string]string{"k": "1"}}, {Name: "x"}}
	case 5:
		return []*gnmi.PathElem{{Name: "l", Key: map[string]string{"k": "1"}}, {Name: "k"}} // key leaf
	case 6:
		return []*gnmi.PathElem{{Name: "a"}} // container
	}
	return []*gnmi.PathElem{{Name: "l", Key: map[string]string{"k": "1"}}} // list entry
}

func c13Text(i int) string {
	switch i {
	case 0:
		return "/a/bc"
	case 1:
		return "/a/d"
	case 2:
		return "/a/zz"
	case 3:
		return "/a/b"
	case 4:
		return "/l[k=1]/x"
	case 5:
		return "/l[k=1]/k"
	case 6:
		return "/a"
	}
	return "/l[k=1]"
}

// c13First: which first element a pool path starts with (0: a, 1: l[k=1])
func c13First(i int) int {
	if i == 4 || i == 5 || i == 7 {
		return 1
	}
	return 0
}

func c13Writable(i int) bool  { return i == 0 || i == 1 || i == 4 || i == 5 }
func c13Deletable(i int) bool { return i != 2 && i != 3 }

func c13Target(k int) string {
	switch k {
	case 0:
		return ""
	case 1:
		return "t1"
	case 2:
		return "t2" // known to topo, no model plugin
	}
	return "tx" // unknown
}

// VerifC13Set: refused => nothing logged; accepted => every operation lands on the target and path so named.
func VerifC13Set() {
	srv := &Server{topo: &vTopo{}, pluginRegistry: &c13Registry{}, transactions: &vTxStore{}, configurations: &vCfgStore{}}
	vNEvents = 1
	vStates[0] = int32(configapi.TransactionStatus_APPLIED)
	limit := verifrt.NondetInt("sizelimit")
	verifrt.Assume(limit >= 0 && limit <= 3)
	srv.gnmiSetSizeLimit = limit
	req := &gnmi.SetRequest{}
	pt := verifrt.NondetInt("prefix.target")
	verifrt.Assume(pt >= 0 && pt <= 3)
	prefixTarget := c13Target(pt)
	if verifrt.Fork("prefix.present", 2) == 1 {
		req.Prefix = &gnmi.Path{Target: prefixTarget}
	} else {
		prefixTarget = ""
	}
	extKind := verifrt.NondetInt("ext")
	verifrt.Assume(extKind >= 0 && extKind <= 4)
	if extKind == 1 {
		req.Extension = []*gnmi_ext.Extension{{Ext: &gnmi_ext.Extension_RegisteredExt{RegisteredExt: &gnmi_ext.RegisteredExtension{
			Id: configapi.TransactionStrategyExtensionID, Msg: []byte{0xff}}}}}
	} else if extKind == 2 {
		req.Extension = []*gnmi_ext.Extension{{Ext: &gnmi_ext.Extension_RegisteredExt{RegisteredExt: &gnmi_ext.RegisteredExtension{
			Id: configapi.TargetVersionOverridesID, Msg: []byte{0xff}}}}}
	} else if extKind >= 3 {
		// a well-formed override of t1's model: version 2 has no plugin (3), version 1 is the registered one (4)
		ver := configapi.TargetVersion("1")
		if extKind == 3 {
			ver = "2"
		}
		ov := &configapi.TargetVersionOverrides{Overrides: map[string]*configapi.TargetTypeVersion{"t1": {TargetType: "ty", TargetVersion: ver}}}
		b, _ := proto.Marshal(ov)
		req.Extension = []*gnmi_ext.Extension{{Ext: &gnmi_ext.Extension_RegisteredExt{RegisteredExt: &gnmi_ext.RegisteredExtension{
			Id: configapi.TargetVersionOverridesID, Msg: b}}}}
	}
	nops := verifrt.Fork("nops", 3) // 0, 1 or 2 operations
	// split = 1: the first element of every operation path travels in the request prefix ("the effective path is the
	// prefix followed by the path"); all operations then share that first element
	split := 0
	if nops > 0 {
		split = verifrt.Fork("prefix.elems", 2)
	}
	var opPath, opTgt [2]int
	var opDel [2]bool
	var opVal [2]string
	for k := 0; k < nops; k++ {
		tag := "op" + "01"[k:k+1]
		opPath[k] = verifrt.Fork(tag+".path", c13NP)
		opDel[k] = verifrt.Fork(tag+".delete", 2) == 1
		opTgt[k] = verifrt.NondetInt(tag + ".target")
		verifrt.Assume(opTgt[k] >= 0 && opTgt[k] <= 3)
		p := &gnmi.Path{Target: c13Target(opTgt[k]), Elem: c13Elems(opPath[k])}
		if split == 1 {
			// (an operation path with no elements of its own - the prefix node itself - is not generated: the server renders
			// it as "<prefix>/" and refuses it, which the property does not speak about)
			verifrt.Assume(opPath[k] != 6 && opPath[k] != 7)
			if k == 0 {
				if req.Prefix == nil {
					req.Prefix = &gnmi.Path{}
				}
				req.Prefix.Elem = p.Elem[:1]
			} else {
				verifrt.Assume(c13First(opPath[k]) == c13First(opPath[0]))
			}
			p.Elem = p.Elem[1:]
		}
		if opDel[k] {
			req.Delete = append(req.Delete, p)
		} else {
			opVal[k] = verifrt.NondetStringN(tag+".val", 1, "12")
			req.Update = append(req.Update, &gnmi.Update{Path: p, Val: &gnmi.TypedValue{Value: &gnmi.TypedValue_StringVal{StringVal: opVal[k]}}})
		}
	}
	if nops == 2 {
		verifrt.Assume(opPath[0] != opPath[1] || opDel[0] != opDel[1]) // two identical operations add nothing
	}
	vCreated = 0
	vTx = nil
	_, err := srv.Set(context.Background(), req)
	verifrt.Cover("answered")

	// ---- reference resolver
	// (an override naming a model version without a plugin makes t1 a target without a model: refused)
	ok := (extKind == 0 || extKind == 4) && nops > 0
	var effT [2]string
	for k := 0; k < nops; k++ {
		effT[k] = c13Target(opTgt[k])
		if prefixTarget != "" {
			effT[k] = prefixTarget // the prefix target overrides per-path targets
		}
		ok = ok && effT[k] == "t1" // the only target with a topo entity and a model plugin
		if opDel[k] {
			ok = ok && c13Deletable(opPath[k])
		} else {
			ok = ok && c13Writable(opPath[k])
			if opPath[k] == 5 {
				ok = ok && opVal[k] == "1" // a key leaf must repeat the key value of its list entry
			}
		}
	}
	// effective (stored) path of each operation: deleting a key leaf deletes its list entry
	var effP [2]string
	for k := 0; k < nops; k++ {
		effP[k] = c13Text(opPath[k])
		if opDel[k] && opPath[k] == 5 {
			effP[k] = c13Text(7)
		}
	}
	if limit > 0 {
		ok = ok && nops <= limit // the two operations differ in path or kind: each counts
	}
	if !ok {
		verifrt.Cover("refused")
		verifrt.Assert(err != nil, "inadmissible-set-is-refused")
		verifrt.Assert(vCreated == 0, "refused-set-logs-nothing")
		return
	}
	verifrt.Cover("accepted")
	verifrt.Assert(err == nil && vCreated == 1 && vTx != nil, "admissible-set-is-logged-once")
	if err != nil || vTx == nil {
		return
	}
	ch := vTx.GetChange()
	verifrt.Assert(ch != nil && len(ch.Values) == 1 && ch.Values["t1"] != nil, "change-names-exactly-the-effective-target")
	if ch == nil || ch.Values["t1"] == nil {
		return
	}
	vals := ch.Values["t1"].Values
	want := 0
	samePath := nops == 2 && effP[0] == effP[1] // an update and a delete of the same path: one entry (the statement is silent on which wins)
	for k := 0; k < nops; k++ {
		if samePath && k == 1 {
			continue
		}
		want++
		path := effP[k]
		pv, found := vals[path]
		verifrt.Assert(found && pv != nil && pv.Path == path, "operation-lands-on-the-path-named")
		if found && pv != nil && !samePath {
			verifrt.Assert(pv.Deleted == opDel[k], "operation-kind-preserved")
			if !opDel[k] {
				verifrt.Assert(string(pv.Value.Bytes) == opVal[k], "value-preserved")
			}
		}
	}
	verifrt.Assert(len(vals) == want, "no-other-path-is-changed")
}
