//go:build verif

package admin

import (
	"context"

	adminapi "github.com/onosproject/onos-api/go/onos/config/admin"
	configapi "github.com/onosproject/onos-api/go/onos/config/v2"
	"github.com/onosproject/onos-config/internal/verifrt"
	transactionstore "github.com/onosproject/onos-config/pkg/store/v2/transaction"
	"google.golang.org/grpc/codes"
	"google.golang.org/grpc/status"
)

// ---- transaction store of the admin harness: remembers the created transaction, delivers a scripted event sequence

var (
	aCreated int
	aTx      *configapi.Transaction
	aNEvents int
	aStates  [4]int32
	aFailSet bool
	aFail    int32
)

type aTxStore struct{ transactionstore.Store }

func (s *aTxStore) Create(ctx context.Context, t *configapi.Transaction) error {
	aCreated++
	t.Index = 9
	t.Version, t.Revision = 1, 1
	aTx = t
	return nil
}

func (s *aTxStore) Watch(ctx context.Context, ch chan<- configapi.TransactionEvent, opts ...transactionstore.WatchOption) error {
	tx := aTx
	go func() {
		for i := 0; i < aNEvents; i++ {
			ev := configapi.TransactionEvent{Type: configapi.TransactionEvent_UPDATED}
			if tx != nil {
				ev.Transaction = *tx
			}
			ev.Transaction.Status.State = configapi.TransactionStatus_State(aStates[i])
			if aStates[i] == int32(configapi.TransactionStatus_FAILED) && aFailSet {
				ev.Transaction.Status.Failure = &configapi.Failure{Type: configapi.Failure_Type(aFail)}
			}
			ch <- ev
		}
	}()
	return nil
}

// VerifOnBlocked: the handler waits for an event although the delivered sequence ended with a finished transaction
func VerifOnBlocked() {
	verifrt.Assert(false, "handler-keeps-waiting-for-a-finished-transaction")
}

func aCodeOfFailure(t int32) codes.Code {
	switch configapi.Failure_Type(t) {
	case configapi.Failure_CANCELED:
		return codes.Canceled
	case configapi.Failure_NOT_FOUND:
		return codes.NotFound
	case configapi.Failure_ALREADY_EXISTS:
		return codes.AlreadyExists
	case configapi.Failure_UNAUTHORIZED:
		return codes.Unauthenticated
	case configapi.Failure_FORBIDDEN:
		return codes.PermissionDenied
	case configapi.Failure_CONFLICT:
		return codes.FailedPrecondition
	case configapi.Failure_INVALID:
		return codes.InvalidArgument
	case configapi.Failure_UNAVAILABLE:
		return codes.Unavailable
	case configapi.Failure_NOT_SUPPORTED:
		return codes.Unimplemented
	case configapi.Failure_TIMEOUT:
		return codes.DeadlineExceeded
	case configapi.Failure_INTERNAL:
		return codes.Internal
	}
	return codes.Unknown
}

// VerifC08Rollback: the admin RollbackTransaction handler against every placement of the controllers' progress relative
// to its "create" and "watch" steps (see VerifC08Set): it is answered when the rollback transaction has finished, with
// success only if it was applied, with the recorded failure class otherwise, and it names the stored id and index.
func VerifC08Rollback() {
	aNEvents = verifrt.Param("events")
	const (
		PENDING = int32(configapi.TransactionStatus_PENDING)
		APPLIED = int32(configapi.TransactionStatus_APPLIED)
		FAILED  = int32(configapi.TransactionStatus_FAILED)
	)
	for i := 0; i < aNEvents; i++ {
		aStates[i] = verifrt.NondetInt32("state")
		verifrt.Assume(aStates[i] >= PENDING && aStates[i] <= FAILED)
	}
	for i := 0; i+1 < aNEvents; i++ {
		a, b := aStates[i], aStates[i+1]
		verifrt.Assume(b == a || (a < APPLIED && b > a))
	}
	last := aStates[aNEvents-1]
	verifrt.Assume(last == APPLIED || last == FAILED)
	aFailSet = verifrt.NondetBool("failure-recorded")
	aFail = verifrt.NondetInt32("failtype")
	verifrt.Assume(aFail >= 0 && aFail <= 11)
	idx := verifrt.NondetUint64("index")
	srv := Server{transactionsStore: &aTxStore{}}
	resp, err := srv.RollbackTransaction(context.Background(), &adminapi.RollbackRequest{Index: configapi.Index(idx)})
	verifrt.Cover("returned")
	reached := func(s int32) bool {
		r := false
		for i := 0; i < aNEvents; i++ {
			r = r || aStates[i] == s
		}
		return r
	}
	verifrt.Assert(aCreated == 1 && aTx != nil && aTx.GetRollback() != nil && uint64(aTx.GetRollback().RollbackIndex) == idx, "one-rollback-transaction-created-for-the-requested-index")
	if err == nil {
		verifrt.Cover("success")
		verifrt.Assert(reached(APPLIED), "success-only-if-applied")
		verifrt.Assert(resp != nil && aTx != nil && resp.ID == aTx.ID && resp.Index == 9, "response-carries-the-stored-id-and-index")
	} else {
		verifrt.Cover("error")
		verifrt.Assert(reached(FAILED), "error-only-if-the-transaction-failed")
		want := codes.Unknown
		if aFailSet {
			want = aCodeOfFailure(aFail)
		}
		verifrt.Assert(status.Code(err) == want, "error-carries-the-recorded-failure-class")
	}
}
