//go:build verif

package gnmi

import (
	"context"

	"github.com/gogo/protobuf/proto"
	configapi "github.com/onosproject/onos-api/go/onos/config/v2"
	"github.com/onosproject/onos-config/internal/verifrt"
	"github.com/openconfig/gnmi/proto/gnmi"
	"github.com/openconfig/gnmi/proto/gnmi_ext"
	"google.golang.org/grpc/codes"
	"google.golang.org/grpc/status"
)

// VerifOnBlocked is run by the engine in every state in which the handler can never be resumed (it waits for an
// event although the delivered sequence ended with a finished transaction).
func VerifOnBlocked() {
	verifrt.Assert(false, "handler-keeps-waiting-for-a-finished-transaction")
}

func vCodeOfFailure(t int32) codes.Code {
	switch configapi.Failure_Type(t) {
	case configapi.Failure_CANCELED:
		return codes.Canceled
	case configapi.Failure_NOT_FOUND:
		return codes.NotFound
	case configapi.Failure_ALREADY_EXISTS:
		return codes.AlreadyExists
	case configapi.Failure_UNAUTHORIZED:
		return codes.Unauthenticated
	case configapi.Failure_FORBIDDEN:
		return codes.PermissionDenied
	case configapi.Failure_CONFLICT:
		return codes.FailedPrecondition
	case configapi.Failure_INVALID:
		return codes.InvalidArgument
	case configapi.Failure_UNAVAILABLE:
		return codes.Unavailable
	case configapi.Failure_NOT_SUPPORTED:
		return codes.Unimplemented
	case configapi.Failure_TIMEOUT:
		return codes.DeadlineExceeded
	case configapi.Failure_INTERNAL:
		return codes.Internal
	}
	return codes.Unknown
}

// VerifC08Set: the Set handler against every placement of the controllers' progress relative to its "create" and
// "watch" steps: the watch replays the current state first (any lifecycle point), then later updates in order
// (stuttering allowed), ending with the finished transaction.
func VerifC08Set() {
	vNEvents = verifrt.Param("events")
	const (
		PENDING   = int32(configapi.TransactionStatus_PENDING)
		VALIDATED = int32(configapi.TransactionStatus_VALIDATED)
		COMMITTED = int32(configapi.TransactionStatus_COMMITTED)
		APPLIED   = int32(configapi.TransactionStatus_APPLIED)
		FAILED    = int32(configapi.TransactionStatus_FAILED)
	)
	for i := 0; i < vNEvents; i++ {
		vStates[i] = verifrt.NondetInt32("state")
		verifrt.Assume(vStates[i] >= PENDING && vStates[i] <= FAILED)
	}
	for i := 0; i+1 < vNEvents; i++ {
		a, b := vStates[i], vStates[i+1]
		// lifecycle order PENDING < VALIDATED < COMMITTED < APPLIED, FAILED from any unfinished state; events may
		// skip intermediate states (the watcher only sees what was stored when it looked) and may repeat
		verifrt.Assume(b == a || (a < APPLIED && b > a))
	}
	last := vStates[vNEvents-1]
	verifrt.Assume(last == APPLIED || last == FAILED) // the transaction has finished
	vFailSet = verifrt.NondetBool("failure-recorded")
	vFail = verifrt.NondetInt32("failtype")
	verifrt.Assume(vFail >= 0 && vFail <= 11)
	sync := verifrt.NondetBool("sync")
	st := &configapi.TransactionStrategy{}
	if sync {
		st.Synchronicity = configapi.TransactionStrategy_SYNCHRONOUS
	}
	stb, _ := proto.Marshal(st)
	req := &gnmi.SetRequest{
		Prefix: &gnmi.Path{Target: "t1"},
		Update: []*gnmi.Update{{Path: &gnmi.Path{Elem: []*gnmi.PathElem{{Name: "a"}, {Name: "b"}}},
			Val: &gnmi.TypedValue{Value: &gnmi.TypedValue_StringVal{StringVal: "v"}}}},
		Delete: []*gnmi.Path{{Elem: []*gnmi.PathElem{{Name: "a"}, {Name: "bc"}}}},
		Extension: []*gnmi_ext.Extension{{Ext: &gnmi_ext.Extension_RegisteredExt{RegisteredExt: &gnmi_ext.RegisteredExtension{
			Id: configapi.TransactionStrategyExtensionID, Msg: stb}}}},
	}
	srv := vServer()
	resp, err := srv.Set(context.Background(), req)
	verifrt.Cover("returned")
	reached := func(s int32) bool {
		r := false
		for i := 0; i < vNEvents; i++ {
			r = r || vStates[i] == s
		}
		return r
	}
	verifrt.Assert(vCreated == 1, "one-transaction-created")
	if err == nil {
		verifrt.Cover("success")
		if sync {
			verifrt.Assert(reached(APPLIED), "sync-success-only-if-applied")
		} else {
			verifrt.Assert(reached(COMMITTED) || reached(APPLIED), "async-success-only-if-committed-or-later")
		}
		ok := resp != nil && len(resp.Response) == 2
		if ok {
			seenUpd, seenDel := false, false
			for _, r := range resp.Response {
				if r.Path == nil || r.Path.Target != "t1" || len(r.Path.Elem) != 2 || r.Path.Elem[0].Name != "a" {
					ok = false
				} else if r.Path.Elem[1].Name == "b" && r.Op == gnmi.UpdateResult_UPDATE {
					seenUpd = true
				} else if r.Path.Elem[1].Name == "bc" && r.Op == gnmi.UpdateResult_DELETE {
					seenDel = true
				} else {
					ok = false
				}
			}
			ok = ok && seenUpd && seenDel
		}
		verifrt.Assert(ok, "response-lists-exactly-the-changed-paths-with-their-operation")
		info := &configapi.TransactionInfo{}
		found := false
		if resp != nil {
			for _, e := range resp.Extension {
				if re, isReg := e.Ext.(*gnmi_ext.Extension_RegisteredExt); isReg && re.RegisteredExt.Id == configapi.TransactionInfoExtensionID {
					found = proto.Unmarshal(re.RegisteredExt.Msg, info) == nil
				}
			}
		}
		verifrt.Assert(found && vTx != nil && info.ID == vTx.ID && info.Index == 7, "response-carries-the-stored-id-and-index")
	} else {
		verifrt.Cover("error")
		verifrt.Assert(reached(FAILED), "error-only-if-the-transaction-failed")
		want := codes.Unknown
		if vFailSet {
			want = vCodeOfFailure(vFail)
		}
		verifrt.Assert(status.Code(err) == want, "error-carries-the-recorded-failure-class")
	}
}

// VerifC08SetEnded: the request context ends (client cancels / deadline) while the handler is still waiting: the store
// closes the watch channel after the events delivered so far, none of which finishes the transaction. The handler
// answers with success only if the stage it waits for was reached, otherwise with an error - never with neither.
func VerifC08SetEnded() {
	vNEvents = verifrt.Param("events") - 1
	const (
		PENDING   = int32(configapi.TransactionStatus_PENDING)
		COMMITTED = int32(configapi.TransactionStatus_COMMITTED)
		APPLIED   = int32(configapi.TransactionStatus_APPLIED)
	)
	for i := 0; i < vNEvents; i++ {
		vStates[i] = verifrt.NondetInt32("state")
		verifrt.Assume(vStates[i] >= PENDING && vStates[i] <= COMMITTED) // unfinished
	}
	for i := 0; i+1 < vNEvents; i++ {
		verifrt.Assume(vStates[i+1] >= vStates[i])
	}
	vCloseAfter = true
	sync := verifrt.NondetBool("sync")
	st := &configapi.TransactionStrategy{}
	if sync {
		st.Synchronicity = configapi.TransactionStrategy_SYNCHRONOUS
	}
	stb, _ := proto.Marshal(st)
	req := &gnmi.SetRequest{
		Prefix: &gnmi.Path{Target: "t1"},
		Update: []*gnmi.Update{{Path: &gnmi.Path{Elem: []*gnmi.PathElem{{Name: "a"}, {Name: "b"}}},
			Val: &gnmi.TypedValue{Value: &gnmi.TypedValue_StringVal{StringVal: "v"}}}},
		Extension: []*gnmi_ext.Extension{{Ext: &gnmi_ext.Extension_RegisteredExt{RegisteredExt: &gnmi_ext.RegisteredExtension{
			Id: configapi.TransactionStrategyExtensionID, Msg: stb}}}},
	}
	srv := vServer()
	resp, err := srv.Set(&vEndedCtx{}, req)
	verifrt.Cover("returned")
	reachedCommitted := false
	for i := 0; i < vNEvents; i++ {
		reachedCommitted = reachedCommitted || vStates[i] == COMMITTED
	}
	verifrt.Assert(err != nil || resp != nil, "answered-with-a-response-or-an-error")
	if err == nil {
		verifrt.Cover("success")
		verifrt.Assert(!sync && reachedCommitted, "success-only-if-the-awaited-stage-was-reached")
	} else {
		verifrt.Cover("error")
	}
	_ = APPLIED
}
