//go:build verif

package configuration

import (
	"github.com/atomix/go-sdk/pkg/primitive"
	"github.com/atomix/go-sdk/pkg/test"
)

// native replay: the real SDK builder over the atomix in-memory test client (the one the repository's tests use)
func vClient() primitive.Client { return test.NewClient() }
