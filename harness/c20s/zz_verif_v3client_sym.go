//go:build verif

package configuration

import (
	"github.com/atomix/go-sdk/pkg/primitive"
	_map "github.com/atomix/go-sdk/pkg/primitive/map"
	configapi "github.com/onosproject/onos-api/go/onos/config/v3"
)

var vNamedRef func(string) _map.Map[string, *configapi.PathValue]

// symbolic run: the builder's Get is cut (atomix-map-by-name -> VerifNamedMap), the client is never used
func vClient() primitive.Client {
	vNamedRef = VerifNamedMap
	return nil
}
