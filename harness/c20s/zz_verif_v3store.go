//go:build verif

package configuration

// The REAL v3 configurationStore (Get / UpdateStatus / populate / store / getTarget) over a stub record map and
// path-value primitives that are resolved BY NAME through the real getTarget (symbolic run: VerifNamedMap; native
// replay: the atomix in-memory test client). Like the SDK's transcoding transaction, the stub encodes the values
// handed to Insert / Update when the transaction is committed, not when they are queued.

import (
	"context"
	"io"

	atomixerrors "github.com/atomix/atomix/api/errors"
	"github.com/atomix/go-sdk/pkg/primitive"
	_map "github.com/atomix/go-sdk/pkg/primitive/map"
	configapi "github.com/onosproject/onos-api/go/onos/config/v3"
	"github.com/onosproject/onos-config/internal/verifrt"
)

const V3NP = 3

func V3Path(i int) string {
	switch i {
	case 0:
		return "/p1"
	case 1:
		return "/p2"
	}
	return "/p3"
}

func v3Slot(key string) int {
	for i := 0; i < V3NP; i++ {
		if key == V3Path(i) {
			return i
		}
	}
	return -1
}

type v3Cell struct {
	Present  bool
	Version  uint64
	PathSlot int // slot of the Path field of the stored value (it is a field of the value, not the key)
	Deleted  bool
	Index    uint64
	Val      [2]byte
}

const v3Names = 2

var (
	v3MapNames [v3Names]string
	v3MapCells [v3Names][V3NP]v3Cell
	v3Config   *configapi.Configuration
	v3ConfigV  uint64
)

// (a function: package initialisers are not run by the symbolic executor)
func V3Target() configapi.Target { return configapi.Target{ID: "t1", Type: "ty", Version: "1"} }

type v3Entry = _map.Entry[string, *configapi.PathValue]

func v3MkEntry(cells *[V3NP]v3Cell, i int) *v3Entry {
	e := &v3Entry{Key: V3Path(i)}
	e.Version = primitive.Version(cells[i].Version)
	pv := &configapi.PathValue{Path: V3Path(cells[i].PathSlot), Deleted: cells[i].Deleted, Index: configapi.Index(cells[i].Index)}
	if !pv.Deleted {
		pv.Value = v3CellValue(cells[i].Val)
	}
	e.Value = pv
	return e
}

func v3CellValue(b [2]byte) configapi.TypedValue {
	return *configapi.NewTypedValueString(string(b[:]))
}

type v3Stream struct {
	entries []*v3Entry
	pos     int
}

func (s *v3Stream) Next() (*v3Entry, error) {
	if s.pos >= len(s.entries) {
		return nil, io.EOF
	}
	e := s.entries[s.pos]
	s.pos++
	return e, nil
}

type v3PVMap struct {
	_map.Map[string, *configapi.PathValue]
	cells *[V3NP]v3Cell
}

func (m *v3PVMap) Get(ctx context.Context, key string, opts ..._map.GetOption) (*v3Entry, error) {
	i := v3Slot(key)
	if i < 0 || !m.cells[i].Present {
		return nil, atomixerrors.NewNotFound("key not found")
	}
	return v3MkEntry(m.cells, i), nil
}

func (m *v3PVMap) List(ctx context.Context) (_map.EntryStream[string, *configapi.PathValue], error) {
	var es []*v3Entry
	for i := 0; i < V3NP; i++ {
		if m.cells[i].Present {
			es = append(es, v3MkEntry(m.cells, i))
		}
	}
	return &v3Stream{entries: es}, nil
}

type v3Op struct {
	kind    int // 0 insert, 1 update, 2 remove
	slot    int
	version uint64
	value   *configapi.PathValue // encoded at Commit
}

type v3Txn struct {
	_map.Transaction[string, *configapi.PathValue]
	cells *[V3NP]v3Cell
	ops   []v3Op
}

func (m *v3PVMap) Transaction(ctx context.Context) _map.Transaction[string, *configapi.PathValue] {
	return &v3Txn{cells: m.cells}
}

func (t *v3Txn) Insert(key string, value *configapi.PathValue, opts ..._map.InsertOption) _map.Transaction[string, *configapi.PathValue] {
	t.ops = append(t.ops, v3Op{kind: 0, slot: v3Slot(key), value: value})
	return t
}

func (t *v3Txn) Update(key string, value *configapi.PathValue, opts ..._map.UpdateOption) _map.Transaction[string, *configapi.PathValue] {
	var ver uint64
	for _, o := range opts {
		ver = verifrt.FieldUint64(o, "version")
	}
	t.ops = append(t.ops, v3Op{kind: 1, slot: v3Slot(key), version: ver, value: value})
	return t
}

func (t *v3Txn) Remove(key string, opts ..._map.RemoveOption) _map.Transaction[string, *configapi.PathValue] {
	var ver uint64
	for _, o := range opts {
		ver = verifrt.FieldUint64(o, "version")
	}
	t.ops = append(t.ops, v3Op{kind: 2, slot: v3Slot(key), version: ver})
	return t
}

func v3Encode(c *v3Cell, pv *configapi.PathValue) {
	c.PathSlot = v3Slot(pv.Path)
	c.Deleted, c.Index = pv.Deleted, uint64(pv.Index)
	c.Val = [2]byte{}
	if !pv.Deleted && len(pv.Value.Bytes) == 2 {
		c.Val[0], c.Val[1] = pv.Value.Bytes[0], pv.Value.Bytes[1]
	}
}

func (t *v3Txn) Commit() ([]*v3Entry, error) {
	for _, op := range t.ops {
		if op.slot < 0 {
			return nil, atomixerrors.NewInvalid("unknown key")
		}
		c := &t.cells[op.slot]
		switch op.kind {
		case 0:
			if c.Present {
				return nil, atomixerrors.NewAlreadyExists("exists")
			}
		default:
			if !c.Present {
				return nil, atomixerrors.NewNotFound("missing")
			}
			if c.Version != op.version {
				return nil, atomixerrors.NewConflict("version")
			}
		}
	}
	for _, op := range t.ops {
		c := &t.cells[op.slot]
		switch op.kind {
		case 0:
			*c = v3Cell{Present: true, Version: 1}
			v3Encode(c, op.value)
		case 1:
			v3Encode(c, op.value)
			c.Version++
		case 2:
			c.Present = false
		}
	}
	return nil, nil
}

// the record map holds the MARSHALLED configuration (a write snapshots, a read copies)
func v3CloneCfg(v *configapi.Configuration) *configapi.Configuration {
	c := *v
	c.Committed.Values = v3ClonePVs(v.Committed.Values)
	c.Applied.Values = v3ClonePVs(v.Applied.Values)
	return &c
}

func v3ClonePVs(m map[string]configapi.PathValue) map[string]configapi.PathValue {
	if len(m) == 0 {
		return nil
	}
	out := make(map[string]configapi.PathValue)
	for i := 0; i < V3NP; i++ {
		if pv, ok := m[V3Path(i)]; ok {
			out[V3Path(i)] = pv
		}
	}
	return out
}

type v3CfgMap struct {
	_map.Map[string, *configapi.Configuration]
}

type v3CfgEntry = _map.Entry[string, *configapi.Configuration]

func (m *v3CfgMap) Get(ctx context.Context, key string, opts ..._map.GetOption) (*v3CfgEntry, error) {
	if v3Config == nil || key != "t1-ty-1" {
		return nil, atomixerrors.NewNotFound("configuration not found")
	}
	e := &v3CfgEntry{Key: key}
	e.Value = v3CloneCfg(v3Config)
	e.Version = primitive.Version(v3ConfigV)
	return e, nil
}

func (m *v3CfgMap) Update(ctx context.Context, key string, value *configapi.Configuration, opts ..._map.UpdateOption) (*v3CfgEntry, error) {
	if v3Config == nil || key != "t1-ty-1" {
		return nil, atomixerrors.NewNotFound("configuration not found")
	}
	for _, o := range opts {
		if verifrt.FieldUint64(o, "version") != v3ConfigV {
			return nil, atomixerrors.NewConflict("version")
		}
	}
	v3Config = v3CloneCfg(value)
	v3ConfigV++
	e := &v3CfgEntry{Key: key}
	e.Value = value
	e.Version = primitive.Version(v3ConfigV)
	return e, nil
}

// VerifNamedMap: see the v2 harness (engine cut atomix-map-by-name on mapBuilder.Get)
func VerifNamedMap(name string) _map.Map[string, *configapi.PathValue] {
	for i := 0; i < v3Names; i++ {
		if v3MapNames[i] == "" {
			v3MapNames[i] = name
		}
		if v3MapNames[i] == name {
			return &v3PVMap{cells: &v3MapCells[i]}
		}
	}
	verifrt.Assert(false, "harness: more distinct path-value primitives than modelled")
	return nil
}

func v3Tag(k uint8) configapi.TypedValue {
	return *configapi.NewTypedValueString("v" + "0123456789"[k:k+1])
}

// VerifC20Store: what the transaction controller writes with UpdateStatus is what every later Get returns: the applied
// values (kept in their own primitive), the committed values (kept in the record) and the cursors, for every subset of a
// three-path universe written in one or two status updates; committed and applied values do not leak into each other.
func VerifC20Store() {
	ctx := context.Background()
	s := &configurationStore{
		client:         vClient(),
		configurations: &v3CfgMap{},
		committed:      make(map[configapi.ConfigurationID]_map.Map[string, *configapi.PathValue]),
		applied:        make(map[configapi.ConfigurationID]_map.Map[string, *configapi.PathValue]),
	}
	id := configapi.ConfigurationID{Target: V3Target()}
	v3Config = &configapi.Configuration{ID: id}
	v3Config.Key, v3Config.Revision = "t1-ty-1", 1
	v3ConfigV = 1
	var refA, refC [V3NP]struct {
		present bool
		tag     uint8
		index   uint64
	}
	rounds := verifrt.Param("rounds")
	for r := 1; r <= rounds; r++ {
		cfg, err := s.Get(ctx, id)
		verifrt.Assert(err == nil && cfg != nil, "get-succeeds")
		if err != nil || cfg == nil {
			return
		}
		// this round's writes: a subset of the paths into the applied values, a subset into the committed values
		wa := verifrt.Fork("applied"+"0123"[r:r+1], 1<<V3NP)
		wc := verifrt.Fork("committed"+"0123"[r:r+1], 1<<V3NP)
		for i := 0; i < V3NP; i++ {
			if wa&(1<<i) != 0 {
				if cfg.Applied.Values == nil {
					cfg.Applied.Values = make(map[string]configapi.PathValue)
				}
				tag := uint8(3*r + i - 3)
				cfg.Applied.Values[V3Path(i)] = configapi.PathValue{Path: V3Path(i), Value: v3Tag(tag), Index: configapi.Index(r)}
				refA[i].present, refA[i].tag, refA[i].index = true, tag, uint64(r)
			}
			if wc&(1<<i) != 0 {
				if cfg.Committed.Values == nil {
					cfg.Committed.Values = make(map[string]configapi.PathValue)
				}
				tag := uint8(3*r + i - 3 + 1)
				cfg.Committed.Values[V3Path(i)] = configapi.PathValue{Path: V3Path(i), Value: v3Tag(tag % 10), Index: configapi.Index(r)}
				refC[i].present, refC[i].tag, refC[i].index = true, tag%10, uint64(r)
			}
		}
		cfg.Applied.Index, cfg.Committed.Index = configapi.Index(r), configapi.Index(r)
		err = s.UpdateStatus(ctx, cfg)
		verifrt.Assert(err == nil, "update-status-succeeds")
		if err != nil {
			return
		}
	}
	verifrt.Cover("written")
	got, err := s.Get(ctx, id)
	verifrt.Assert(err == nil && got != nil, "get-succeeds")
	if err != nil || got == nil {
		return
	}
	verifrt.Assert(got.Applied.Index == configapi.Index(rounds) && got.Committed.Index == configapi.Index(rounds), "cursors-read-back")
	for i := 0; i < V3NP; i++ {
		pv, ok := got.Applied.Values[V3Path(i)]
		verifrt.Assert(ok == refA[i].present, "applied-values-are-exactly-the-paths-written")
		if ok && refA[i].present {
			want := v3Tag(refA[i].tag)
			verifrt.Assert(pv.Path == V3Path(i) && uint64(pv.Index) == refA[i].index && string(pv.Value.Bytes) == string(want.Bytes), "applied-value-read-back-as-written")
		}
		pv, ok = got.Committed.Values[V3Path(i)]
		verifrt.Assert(ok == refC[i].present, "committed-values-are-exactly-the-paths-written")
		if ok && refC[i].present {
			want := v3Tag(refC[i].tag)
			verifrt.Assert(pv.Path == V3Path(i) && uint64(pv.Index) == refC[i].index && string(pv.Value.Bytes) == string(want.Bytes), "committed-value-read-back-as-written")
		}
	}
}

// VerifC15V3Configuration: two writers of the same v3 configuration version: the first succeeds with a larger version,
// the second is refused with a conflict and leaves no trace (Update and UpdateStatus in every combination).
func VerifC15V3Configuration() {
	ctx := context.Background()
	s := &configurationStore{
		client:         vClient(),
		configurations: &v3CfgMap{},
		committed:      make(map[configapi.ConfigurationID]_map.Map[string, *configapi.PathValue]),
		applied:        make(map[configapi.ConfigurationID]_map.Map[string, *configapi.PathValue]),
	}
	id := configapi.ConfigurationID{Target: V3Target()}
	v3Config = &configapi.Configuration{ID: id}
	v3Config.Key, v3Config.Revision = "t1-ty-1", 1
	v0 := verifrt.NondetUint64("version")
	verifrt.Assume(v0 >= 1 && v0 < 1000)
	v3ConfigV = v0
	a, errA := s.Get(ctx, id)
	b, errB := s.Get(ctx, id)
	verifrt.Assert(errA == nil && errB == nil && a != nil && b != nil && a.Version == v0 && b.Version == v0, "readers-see-the-stored-version")
	if errA != nil || errB != nil || a == nil || b == nil {
		return
	}
	a.Committed.Index = configapi.Index(verifrt.NondetUint64("committed.a"))
	b.Committed.Index = configapi.Index(verifrt.NondetUint64("committed.b"))
	var e1, e2 error
	if verifrt.Fork("op1", 2) == 0 {
		e1 = s.Update(ctx, a)
	} else {
		e1 = s.UpdateStatus(ctx, a)
	}
	if verifrt.Fork("op2", 2) == 0 {
		e2 = s.Update(ctx, b)
	} else {
		e2 = s.UpdateStatus(ctx, b)
	}
	verifrt.Cover("two-writers")
	verifrt.Assert(e1 == nil && a.Version > v0, "first-writer-succeeds-and-the-version-grows")
	verifrt.Assert(e2 != nil, "second-writer-of-the-same-version-is-refused")
	verifrt.Assert(v3Config != nil && v3Config.Committed.Index == a.Committed.Index && v3ConfigV == v0+1, "the-lost-update-left-no-trace-in-the-record")
}
