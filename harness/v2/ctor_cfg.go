//go:build verif

package configuration

import (
	"github.com/onosproject/onos-config/pkg/southbound/gnmi"
	"github.com/onosproject/onos-config/pkg/store/topo"
	"github.com/onosproject/onos-config/pkg/store/v2/configuration"
)

// NewReconcilerForVerif builds a Reconciler over the given stores (the fields are unexported).
func NewReconcilerForVerif(t topo.Store, c gnmi.ConnManager, cfg configuration.Store) *Reconciler {
	return &Reconciler{topo: t, conns: c, configurations: cfg}
}
