//go:build verif

package verifv2

import (
	"fmt"
	"os"

	"github.com/onosproject/onos-config/internal/verifrt"
)

// VerifStepEntry: arbitrary state, one arbitrary step. The engine reads the transition relation off S before/after,
// the named predicates (Region) are the state predicates used by the bounded model checker, the assertions are the
// step contracts (they must hold from every state, reachable or not).
func VerifStepEntry() {
	verifrt.HavocState(&S, "s")
	StatePredicates("") // evaluated under the empty path condition: pure functions of the state leaves
	verifrt.HavocState(&P, "p")
	choice := verifrt.NondetInt("choice")
	verifrt.Assume(choice >= 0 && choice < NumChoices)
	verifrt.Assume(StateRange() && P.ArgRollback <= NX+1 && P.DevCode >= 0 && P.DevCode <= 16 && P.RejectKind >= 0 && P.RejectKind <= 2)
	verifrt.Cover("pre")
	pre := S
	Step(choice)
	verifrt.Cover("end")
	StepContracts(&pre, choice)
}

// VerifRun replays a schedule natively from the initial (all-zero) state: per step the choice and the parameters.
func VerifRun() {
	verifrt.HavocState(&S.Verdict, "s.Verdict")
	n := verifrt.NondetInt("steps")
	for k := 0; k < n; k++ {
		verifrt.HavocState(&P, "p")
		choice := verifrt.NondetInt("choice")
		pre := S
		Step(choice)
		StepContracts(&pre, choice)
		StatePredicates("")
		if !verifrt.Symbolic() && os.Getenv("VERIF_DUMP") != "" {
			fmt.Printf("VERIF-DUMP step %d choice %d params %+v\n  txs %+v\n  props %+v\n  cfgs %+v\n  devs %+v\n  work %+v\n", k+1, choice, P, S.Txs, S.Props, S.Configs, S.Devs, S.W)
		}
	}
	// fixed-point probe: no reconcile (fault free, crash free) changes the final state
	if verifrt.NondetBool("probe") {
		fixed := true
		n := ChCfg
		if WithSync {
			n = ChAppend
		}
		for c := 0; c < n; c++ {
			snap := S
			P = Params{CrashAfter: -1}
			Step(c)
			S.Crashes, S.Faults = snap.Crashes, snap.Faults
			if S != snap {
				fixed = false
			}
			S = snap
		}
		verifrt.Region("fixed-point", fixed)
	}
	verifrt.Cover("ran")
}
