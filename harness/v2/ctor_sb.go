//go:build verif

package gnmi

import (
	topoapi "github.com/onosproject/onos-api/go/onos/topo"
	gclient "github.com/openconfig/gnmi/client/gnmi"
)

// NewConnForVerif builds the real conn/client wrappers around the given (unconnected) gNMI client.
func NewConnForVerif(id ConnID, target topoapi.ID, c *gclient.Client) Conn {
	return &conn{client: &client{client: c}, id: id, targetID: target}
}
