//go:build verif

package proposal

import (
	"github.com/onosproject/onos-config/pkg/pluginregistry"
	"github.com/onosproject/onos-config/pkg/southbound/gnmi"
	"github.com/onosproject/onos-config/pkg/store/topo"
	"github.com/onosproject/onos-config/pkg/store/v2/configuration"
	proposalstore "github.com/onosproject/onos-config/pkg/store/v2/proposal"
)

// NewReconcilerForVerif builds a Reconciler over the given stores (the fields are unexported).
func NewReconcilerForVerif(t topo.Store, c gnmi.ConnManager, p proposalstore.Store, cfg configuration.Store, reg pluginregistry.PluginRegistry) *Reconciler {
	return &Reconciler{topo: t, conns: c, proposals: p, configurations: cfg, pluginRegistry: reg}
}
