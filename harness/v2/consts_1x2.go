//go:build verif

package verifv2

const (
	NT           = 1
	NX           = 2
	WithSync     = false
	WithRollback = false
	WithFaults   = false
	WithCrash    = false
	WithVersions = false
	Budget       = 1
	WithWork     = false
	NProbe       = 0
)
