//go:build verif

// Package verifv2 is the flat-state harness of the v2 controllers (DESIGN.md section 4): the state of the system is
// a vector of scalars, Step(choice) runs exactly one real Reconcile (or one environment action) over stores that
// un-flatten / flatten the vector. The engine executes Step once on a fully symbolic state to extract the
// transition relation of the real code; natively the same Step replays schedules.
package verifv2

import (
	"context"

	configapi "github.com/onosproject/onos-api/go/onos/config/v2"
	topoapi "github.com/onosproject/onos-api/go/onos/topo"
	controllerutils "github.com/onosproject/onos-config/pkg/controller/utils"
	configurationctl "github.com/onosproject/onos-config/pkg/controller/v2/configuration"
	mastershipctl "github.com/onosproject/onos-config/pkg/controller/v2/mastership"
	proposalctl "github.com/onosproject/onos-config/pkg/controller/v2/proposal"
	transactionctl "github.com/onosproject/onos-config/pkg/controller/v2/transaction"
	"github.com/onosproject/onos-config/pkg/pluginregistry"
	"github.com/onosproject/onos-config/pkg/southbound/gnmi"
	"github.com/onosproject/onos-config/pkg/store/topo"
	"github.com/onosproject/onos-config/pkg/store/v2/configuration"
	proposalstore "github.com/onosproject/onos-config/pkg/store/v2/proposal"
	transactionstore "github.com/onosproject/onos-config/pkg/store/v2/transaction"
	"github.com/onosproject/onos-lib-go/pkg/controller"
	"github.com/onosproject/onos-lib-go/pkg/errors"
	gpb "github.com/openconfig/gnmi/proto/gnmi"
	"github.com/openconfig/gnmi/proto/gnmi_ext"
	"google.golang.org/grpc/codes"
	"google.golang.org/grpc/status"
)

const (
	vType = configapi.TargetType("ty")
	vVer  = configapi.TargetVersion("1")
)

func vTarget(t int) configapi.TargetID {
	if t == 0 {
		return "t1"
	}
	return "t2"
}

// every transaction writes its own leaf (on each of its targets): "altered by transaction i" <=> leaf i is live
func vPath(i int) string {
	switch i {
	case 0:
		return "/p1"
	case 1:
		return "/p2"
	}
	return "/p3"
}

// every (re-)connection of a target has a new connection / relation id: two generations alternate
func vConnID(t int, gen bool) string {
	if t == 0 {
		if gen {
			return "conn-t1-b"
		}
		return "conn-t1-a"
	}
	if gen {
		return "conn-t2-b"
	}
	return "conn-t2-a"
}

// masterCode: 0 = no master, 1 = generation a, 2 = generation b, 3 = some other id
func masterCode(t int, id string) uint8 {
	switch id {
	case "":
		return 0
	case vConnID(t, false):
		return 1
	case vConnID(t, true):
		return 2
	}
	return 3
}

func masterID(t int, code uint8) string {
	switch code {
	case 1:
		return vConnID(t, false)
	case 2:
		return vConnID(t, true)
	case 3:
		return "conn-other"
	}
	return ""
}

// ---- flat state --------------------------------------------------------------------------------

type Phase struct {
	Present bool
	State   int32
}

type PV struct {
	Present bool
	Deleted bool
	Index   uint8
}

type Tx struct {
	Exists                               bool
	Version                              uint8
	State                                int32
	Failed                               bool // Status.Failure != nil
	FailType                             int32
	ProposalsSet                         bool
	Init, Validate, Commit, Abort, Apply Phase
	// constants of the log entry, chosen by the environment when the entry is appended
	Targets       [NT]bool
	IsRollback    bool
	RollbackIndex uint8
}

type Prop struct {
	Exists                               bool
	Version                              uint8
	Prev, Next                           uint8
	RollbackIndex                        uint8
	Rollback                             [NX]PV
	ValFailed                            bool
	ValFailType                          int32
	ApplyFailed                          bool
	ApplyFailType                        int32
	ApplyTerm                            uint8
	Init, Validate, Commit, Abort, Apply Phase
}

type Cfg struct {
	Exists        bool
	Version       uint8
	Index         uint8
	Proposed      uint8
	Committed     uint8
	Applied       uint8
	Term          uint8
	AppliedTerm   uint8
	Master        uint8 // Status.Mastership.Master: see masterCode
	AppliedMaster uint8
	State         int32
	Values        [NX]PV
	AppliedVals   [NX]PV
}

// Dev is the device behind a target's connection
type Dev struct {
	Connected   bool     // connection + CONTROLS relation exist
	Gen         bool     // generation of the current / next connection id
	Vals        [NX]PV   // device contents per leaf (Index = transaction whose value it holds)
	MaxElection uint8    // highest election id seen
	Sets        uint8    // number of accepted Sets (ghost)
	LastSetTx   uint8    // ghost: transaction index of the last accepted change Set (0 = re-push)
	Got         [NX]bool // ghost: the device has accepted the change Set of proposal i at some time
	RepushTerm  uint8    // ghost: election id of the last re-push Set the device accepted (0 = none since its last restart)
}

// State is the whole system state (the state vector of the transition system)
type State struct {
	Txs     [NX]Tx
	Props   [NT][NX]Prop
	Configs [NT]Cfg
	Devs    [NT]Dev
	Verdict [NT][NX]bool // plugin verdict per (target, transaction): environment, constant over time
	// ghost monitors
	MaxCommitted      [NT]uint8 // highest Committed.Index ever written
	LastMerged        [NT]uint8 // index stamped by the last merge into Values
	MergeOutOfOrder   bool      // a merge happened with an index not above every earlier merge
	SendBeforeMerge   bool      // a change was sent to the device before being merged into the stored configuration
	SendOutOfOrder    bool      // a change was sent while an earlier proposal of that target had not finished applying
	SendAfterLater    bool      // a change was sent to a device after the change of a later transaction
	SendNotMaster     bool      // a Set was sent with an election id different from the stored mastership term
	SendWhileUnsynced bool      // a change was sent in a term whose re-push had not completed
	ResyncNoRepush    bool      // the applied term was advanced although applied values exist and no re-push was sent in that term
	Crashes           uint8     // number of steps that ended in a process stop
	Faults            uint8     // number of device faults / disconnects / restarts injected
	W                 Work      // ghost (WithWork): the controllers' pending reconcile requests
}

// Work is the set of reconcile requests the controllers' work queues hold (WithWork). A request is added by the store
// events the REAL watchers of pkg/controller/v2/*/watcher.go map to controller ids (the mapping is restated in wake*
// below and checked against the real watcher goroutines by the C09 watcher harness), by a Reconcile that returns
// Result{Requeue: id} and by a Reconcile that returns an error (retried after a back-off); it is removed when the
// request is handed to Reconcile.
type Work struct {
	Tx        [NX]bool
	Prop      [NT][NX]bool
	Cfg       [NT]bool // configuration controller
	Ms        [NT]bool // mastership controller
	IdleMoved bool     // ghost: with no request pending, re-examining a record changed the state (C09, first sentence)
}

// Params are the per-step environment parameters (fresh in every step)
type Params struct {
	DevCode     int32    // gRPC code answered by a device for a Set in this step (0 = OK)
	RejectKind  int32    // kind of error with which the model plugin refuses in this step (see vPlugin.Validate)
	CrashAfter  int      // store/device calls allowed in this step before the process stops (<0: no crash)
	ArgTargets  [NT]bool // append: targets named by the new change
	ArgRollback uint8    // append rollback: index to roll back
}

var (
	S State
	P Params
	// scratch of the current step
	Writes         int  // store/device calls performed in this step
	CurT, CurX     int  // proposal being reconciled (for the plugin stub)
	InProposalStep bool // the current step reconciles a proposal
)

func crashed() bool { return WithCrash && P.CrashAfter >= 0 && Writes >= P.CrashAfter }

var errCrash = errors.NewUnavailable("process stopped")

// ---- transaction store ---------------------------------------------------------------------------

type txStore struct{ transactionstore.Store }

func (s *txStore) GetByIndex(ctx context.Context, index configapi.Index) (*configapi.Transaction, error) {
	if crashed() {
		return nil, errCrash
	}
	if index < 1 || index > NX || !S.Txs[index-1].Exists {
		return nil, errors.NewNotFound("transaction not found")
	}
	i := int(index - 1)
	rec := &S.Txs[i]
	t := &configapi.Transaction{ID: configapi.TransactionID("tx"), Index: index}
	if rec.IsRollback {
		t.Details = &configapi.Transaction_Rollback{Rollback: &configapi.RollbackTransaction{RollbackIndex: configapi.Index(rec.RollbackIndex)}}
	} else {
		path := vPath(i)
		values := make(map[configapi.TargetID]*configapi.PathValues)
		for tg := 0; tg < NT; tg++ {
			if rec.Targets[tg] {
				values[vTarget(tg)] = &configapi.PathValues{Values: map[string]*configapi.PathValue{
					path: {Path: path, Value: *configapi.NewTypedValueString("v")}}}
			}
		}
		t.Details = &configapi.Transaction_Change{Change: &configapi.ChangeTransaction{Values: values}}
	}
	ov := make(map[string]*configapi.TargetTypeVersion)
	for tg := 0; tg < NT; tg++ {
		ov[string(vTarget(tg))] = &configapi.TargetTypeVersion{TargetType: vType, TargetVersion: vVer}
	}
	t.TargetVersionOverrides = &configapi.TargetVersionOverrides{Overrides: ov}
	t.Version = uint64(rec.Version)
	t.Revision = 1
	t.Status.State = configapi.TransactionStatus_State(rec.State)
	if rec.Failed {
		t.Status.Failure = &configapi.Failure{Type: configapi.Failure_Type(rec.FailType)}
	}
	if rec.ProposalsSet {
		t.Status.Proposals = txProposals(i)
	}
	if rec.Init.Present {
		t.Status.Phases.Initialize = &configapi.TransactionInitializePhase{State: configapi.TransactionInitializePhase_State(rec.Init.State)}
	}
	if rec.Validate.Present {
		t.Status.Phases.Validate = &configapi.TransactionValidatePhase{State: configapi.TransactionValidatePhase_State(rec.Validate.State)}
	}
	if rec.Commit.Present {
		t.Status.Phases.Commit = &configapi.TransactionCommitPhase{State: configapi.TransactionCommitPhase_State(rec.Commit.State)}
	}
	if rec.Abort.Present {
		t.Status.Phases.Abort = &configapi.TransactionAbortPhase{State: configapi.TransactionAbortPhase_State(rec.Abort.State)}
	}
	if rec.Apply.Present {
		t.Status.Phases.Apply = &configapi.TransactionApplyPhase{State: configapi.TransactionApplyPhase_State(rec.Apply.State)}
	}
	return t, nil
}

// targets of transaction slot i: its own for a change, those of the change it names for a rollback
func txTargets(i int) [NT]bool {
	rec := &S.Txs[i]
	if !rec.IsRollback {
		return rec.Targets
	}
	var none [NT]bool
	if rec.RollbackIndex < 1 || rec.RollbackIndex > NX {
		return none
	}
	return S.Txs[rec.RollbackIndex-1].Targets
}

func txProposals(i int) []configapi.ProposalID {
	ids := []configapi.ProposalID{}
	tg := txTargets(i)
	for t := 0; t < NT; t++ {
		if tg[t] {
			ids = append(ids, proposalstore.NewID(vTarget(t), configapi.Index(i+1)))
		}
	}
	return ids
}

func (s *txStore) UpdateStatus(ctx context.Context, t *configapi.Transaction) error {
	if crashed() {
		return errCrash
	}
	if t.Index < 1 || t.Index > NX || !S.Txs[t.Index-1].Exists {
		return errors.NewNotFound("transaction not found")
	}
	rec := &S.Txs[t.Index-1]
	if t.Version != uint64(rec.Version) {
		return errors.NewConflict("version mismatch")
	}
	rec.State = int32(t.Status.State)
	rec.Failed = t.Status.Failure != nil
	if rec.Failed {
		rec.FailType = int32(t.Status.Failure.Type)
	}
	rec.ProposalsSet = t.Status.Proposals != nil
	rec.Init.Present = t.Status.Phases.Initialize != nil
	if rec.Init.Present {
		rec.Init.State = int32(t.Status.Phases.Initialize.State)
	}
	rec.Validate.Present = t.Status.Phases.Validate != nil
	if rec.Validate.Present {
		rec.Validate.State = int32(t.Status.Phases.Validate.State)
	}
	rec.Commit.Present = t.Status.Phases.Commit != nil
	if rec.Commit.Present {
		rec.Commit.State = int32(t.Status.Phases.Commit.State)
	}
	rec.Abort.Present = t.Status.Phases.Abort != nil
	if rec.Abort.Present {
		rec.Abort.State = int32(t.Status.Phases.Abort.State)
	}
	rec.Apply.Present = t.Status.Phases.Apply != nil
	if rec.Apply.Present {
		rec.Apply.State = int32(t.Status.Phases.Apply.State)
	}
	if WithVersions {
		rec.Version++
	}
	t.Version = uint64(rec.Version)
	Writes++
	eventTx(int(t.Index - 1))
	return nil
}

// ---- proposal store ------------------------------------------------------------------------------

type propStore struct{ proposalstore.Store }

func propSlot(id configapi.ProposalID) (int, int) {
	for t := 0; t < NT; t++ {
		for i := 0; i < NX; i++ {
			if id == proposalstore.NewID(vTarget(t), configapi.Index(i+1)) {
				return t, i
			}
		}
	}
	return -1, -1
}

func pvMap(pvs *[NX]PV) map[string]*configapi.PathValue {
	var m map[string]*configapi.PathValue
	for j := 0; j < NX; j++ {
		if pvs[j].Present {
			if m == nil {
				m = make(map[string]*configapi.PathValue)
			}
			pv := &configapi.PathValue{Path: vPath(j), Deleted: pvs[j].Deleted, Index: configapi.Index(pvs[j].Index)}
			if !pv.Deleted {
				pv.Value = *configapi.NewTypedValueString("v")
			}
			m[vPath(j)] = pv
		}
	}
	return m
}

func pvFlat(m map[string]*configapi.PathValue, pvs *[NX]PV) {
	for j := 0; j < NX; j++ {
		pv, ok := m[vPath(j)]
		pvs[j].Present = ok && pv != nil
		if pvs[j].Present {
			pvs[j].Deleted = pv.Deleted
			pvs[j].Index = uint8(pv.Index)
		}
	}
}

func (s *propStore) Get(ctx context.Context, id configapi.ProposalID) (*configapi.Proposal, error) {
	if crashed() {
		return nil, errCrash
	}
	t, i := propSlot(id)
	if t < 0 || !S.Props[t][i].Exists {
		return nil, errors.NewNotFound("proposal not found")
	}
	rec := &S.Props[t][i]
	p := &configapi.Proposal{ID: id, TargetID: vTarget(t), TransactionIndex: configapi.Index(i + 1)}
	if S.Txs[i].IsRollback {
		p.Details = &configapi.Proposal_Rollback{Rollback: &configapi.RollbackProposal{RollbackIndex: configapi.Index(S.Txs[i].RollbackIndex)}}
	} else {
		path := vPath(i)
		p.Details = &configapi.Proposal_Change{Change: &configapi.ChangeProposal{
			Values: map[string]*configapi.PathValue{path: {Path: path, Index: configapi.Index(i + 1), Value: *configapi.NewTypedValueString("v")}},
		}}
	}
	p.Version = uint64(rec.Version)
	p.Revision = 1
	p.TargetType = vType
	p.TargetVersion = vVer
	p.Status.PrevIndex = configapi.Index(rec.Prev)
	p.Status.NextIndex = configapi.Index(rec.Next)
	p.Status.RollbackIndex = configapi.Index(rec.RollbackIndex)
	p.Status.RollbackValues = pvMap(&rec.Rollback)
	if rec.Init.Present {
		p.Status.Phases.Initialize = &configapi.ProposalInitializePhase{State: configapi.ProposalInitializePhase_State(rec.Init.State)}
	}
	if rec.Validate.Present {
		p.Status.Phases.Validate = &configapi.ProposalValidatePhase{State: configapi.ProposalValidatePhase_State(rec.Validate.State)}
		if rec.ValFailed {
			p.Status.Phases.Validate.Failure = &configapi.Failure{Type: configapi.Failure_Type(rec.ValFailType)}
		}
	}
	if rec.Commit.Present {
		p.Status.Phases.Commit = &configapi.ProposalCommitPhase{State: configapi.ProposalCommitPhase_State(rec.Commit.State)}
	}
	if rec.Abort.Present {
		p.Status.Phases.Abort = &configapi.ProposalAbortPhase{State: configapi.ProposalAbortPhase_State(rec.Abort.State)}
	}
	if rec.Apply.Present {
		p.Status.Phases.Apply = &configapi.ProposalApplyPhase{State: configapi.ProposalApplyPhase_State(rec.Apply.State),
			Term: configapi.MastershipTerm(rec.ApplyTerm)}
		if rec.ApplyFailed {
			p.Status.Phases.Apply.Failure = &configapi.Failure{Type: configapi.Failure_Type(rec.ApplyFailType)}
		}
	}
	return p, nil
}

func (s *propStore) Create(ctx context.Context, p *configapi.Proposal) error {
	if crashed() {
		return errCrash
	}
	t, i := propSlot(p.ID)
	if t < 0 {
		return errors.NewInvalid("unknown proposal id")
	}
	if S.Props[t][i].Exists {
		return errors.NewAlreadyExists("proposal exists")
	}
	S.Props[t][i] = Prop{Exists: true, Version: 1}
	p.Version = 1
	p.Revision = 1
	Writes++
	eventProp(t, i)
	return nil
}

func (s *propStore) UpdateStatus(ctx context.Context, p *configapi.Proposal) error {
	if crashed() {
		return errCrash
	}
	t, i := propSlot(p.ID)
	if t < 0 || !S.Props[t][i].Exists {
		return errors.NewNotFound("proposal not found")
	}
	rec := &S.Props[t][i]
	if p.Version != uint64(rec.Version) {
		return errors.NewConflict("version mismatch")
	}
	rec.Prev = uint8(p.Status.PrevIndex)
	rec.Next = uint8(p.Status.NextIndex)
	rec.RollbackIndex = uint8(p.Status.RollbackIndex)
	pvFlat(p.Status.RollbackValues, &rec.Rollback)
	rec.Init.Present = p.Status.Phases.Initialize != nil
	if rec.Init.Present {
		rec.Init.State = int32(p.Status.Phases.Initialize.State)
	}
	rec.Validate.Present = p.Status.Phases.Validate != nil
	if rec.Validate.Present {
		rec.Validate.State = int32(p.Status.Phases.Validate.State)
		rec.ValFailed = p.Status.Phases.Validate.Failure != nil
		if rec.ValFailed {
			rec.ValFailType = int32(p.Status.Phases.Validate.Failure.Type)
		}
	}
	rec.Commit.Present = p.Status.Phases.Commit != nil
	if rec.Commit.Present {
		rec.Commit.State = int32(p.Status.Phases.Commit.State)
	}
	rec.Abort.Present = p.Status.Phases.Abort != nil
	if rec.Abort.Present {
		rec.Abort.State = int32(p.Status.Phases.Abort.State)
	}
	rec.Apply.Present = p.Status.Phases.Apply != nil
	if rec.Apply.Present {
		rec.Apply.State = int32(p.Status.Phases.Apply.State)
		rec.ApplyTerm = uint8(p.Status.Phases.Apply.Term)
		rec.ApplyFailed = p.Status.Phases.Apply.Failure != nil
		if rec.ApplyFailed {
			rec.ApplyFailType = int32(p.Status.Phases.Apply.Failure.Type)
		}
	}
	if WithVersions {
		rec.Version++
	}
	p.Version = uint64(rec.Version)
	Writes++
	eventProp(t, i)
	return nil
}

// ---- configuration store -------------------------------------------------------------------------

type cfgStore struct{ configuration.Store }

func cfgSlot(id configapi.ConfigurationID) int {
	for t := 0; t < NT; t++ {
		if id == configuration.NewID(vTarget(t), vType, vVer) {
			return t
		}
	}
	return -1
}

func (s *cfgStore) Get(ctx context.Context, id configapi.ConfigurationID) (*configapi.Configuration, error) {
	if crashed() {
		return nil, errCrash
	}
	t := cfgSlot(id)
	if t < 0 || !S.Configs[t].Exists {
		return nil, errors.NewNotFound("configuration not found")
	}
	rec := &S.Configs[t]
	c := &configapi.Configuration{ID: id, TargetID: vTarget(t), Index: configapi.Index(rec.Index)}
	c.Version = uint64(rec.Version)
	c.Revision = 1
	c.Values = pvMap(&rec.Values)
	c.Status.State = configapi.ConfigurationStatus_State(rec.State)
	c.Status.Proposed.Index = configapi.Index(rec.Proposed)
	c.Status.Committed.Index = configapi.Index(rec.Committed)
	c.Status.Applied.Index = configapi.Index(rec.Applied)
	c.Status.Applied.Values = pvMap(&rec.AppliedVals)
	if WithSync {
		c.Status.Mastership.Term = configapi.MastershipTerm(rec.Term)
		c.Status.Mastership.Master = masterID(t, rec.Master)
		c.Status.Applied.Mastership.Term = configapi.MastershipTerm(rec.AppliedTerm)
		c.Status.Applied.Mastership.Master = masterID(t, rec.AppliedMaster)
	} else {
		// without the mastership / configuration controllers: the connection is the master, term 1, device in sync
		c.Status.Mastership.Term = 1
		c.Status.Applied.Mastership.Term = 1
		if S.Devs[t].Connected {
			c.Status.Mastership.Master = vConnID(t, S.Devs[t].Gen)
			c.Status.Applied.Mastership.Master = vConnID(t, S.Devs[t].Gen)
		}
	}
	return c, nil
}

func (s *cfgStore) Create(ctx context.Context, c *configapi.Configuration) error {
	if crashed() {
		return errCrash
	}
	t := cfgSlot(c.ID)
	if t < 0 {
		return errors.NewInvalid("unknown configuration id")
	}
	if S.Configs[t].Exists {
		return errors.NewAlreadyExists("configuration exists")
	}
	S.Configs[t] = Cfg{Exists: true, Version: 1, Proposed: uint8(c.Status.Proposed.Index)}
	c.Version = 1
	c.Revision = 1
	Writes++
	eventCfg(t)
	return nil
}

func cfgFlat(t int, c *configapi.Configuration) {
	rec := &S.Configs[t]
	rec.State = int32(c.Status.State)
	rec.Proposed = uint8(c.Status.Proposed.Index)
	rec.Committed = uint8(c.Status.Committed.Index)
	rec.Applied = uint8(c.Status.Applied.Index)
	if WithSync {
		rec.Term = uint8(c.Status.Mastership.Term)
		if at := uint8(c.Status.Applied.Mastership.Term); at != rec.AppliedTerm && at != 0 {
			// ghost: the re-synchronisation of term `at` is being reported complete
			for j := 0; j < NX; j++ {
				if rec.AppliedVals[j].Present && S.Devs[t].RepushTerm != at {
					S.ResyncNoRepush = true
				}
			}
		}
		rec.AppliedTerm = uint8(c.Status.Applied.Mastership.Term)
		rec.Master = masterCode(t, c.Status.Mastership.Master)
		rec.AppliedMaster = masterCode(t, c.Status.Applied.Mastership.Master)
	}
	if WithVersions {
		rec.Version++
	}
	c.Version = uint64(rec.Version)
	if rec.Committed > S.MaxCommitted[t] {
		S.MaxCommitted[t] = rec.Committed
	}
	Writes++
	eventCfg(t)
}

func (s *cfgStore) Update(ctx context.Context, c *configapi.Configuration) error {
	if crashed() {
		return errCrash
	}
	t := cfgSlot(c.ID)
	if t < 0 || !S.Configs[t].Exists {
		return errors.NewNotFound("configuration not found")
	}
	if c.Version != uint64(S.Configs[t].Version) {
		return errors.NewConflict("version mismatch")
	}
	S.Configs[t].Index = uint8(c.Index)
	if c.Values != nil {
		old := S.Configs[t].Values
		pvFlat(c.Values, &S.Configs[t].Values)
		if old != S.Configs[t].Values {
			// ghost: merges must carry strictly increasing log indexes
			idx := uint8(c.Status.Committed.Index)
			if idx <= S.LastMerged[t] {
				S.MergeOutOfOrder = true
			}
			S.LastMerged[t] = idx
		}
	}
	cfgFlat(t, c)
	c.Values = nil // as the real store does with the caller's object
	return nil
}

func (s *cfgStore) UpdateStatus(ctx context.Context, c *configapi.Configuration) error {
	if crashed() {
		return errCrash
	}
	t := cfgSlot(c.ID)
	if t < 0 || !S.Configs[t].Exists {
		return errors.NewNotFound("configuration not found")
	}
	if c.Version != uint64(S.Configs[t].Version) {
		return errors.NewConflict("version mismatch")
	}
	if c.Status.Applied.Values != nil {
		pvFlat(c.Status.Applied.Values, &S.Configs[t].AppliedVals)
	}
	cfgFlat(t, c)
	c.Status.Applied.Values = nil // as the real store does with the caller's object
	return nil
}

// ---- topo / conns / device / plugin ----------------------------------------------------------------

type topoStore struct{ topo.Store }

func vRelation(t int) *topoapi.Object {
	return &topoapi.Object{ID: topoapi.ID(vConnID(t, S.Devs[t].Gen)), Type: topoapi.Object_RELATION, Obj: &topoapi.Object_Relation{Relation: &topoapi.Relation{
		KindID: topoapi.CONTROLS, SrcEntityID: controllerutils.GetOnosConfigID(), TgtEntityID: topoapi.ID(vTarget(t))}}}
}

func (s *topoStore) Get(ctx context.Context, id topoapi.ID) (*topoapi.Object, error) {
	if crashed() {
		return nil, errCrash
	}
	for t := 0; t < NT; t++ {
		if id == topoapi.ID(vTarget(t)) {
			o := &topoapi.Object{ID: id, Type: topoapi.Object_ENTITY, Obj: &topoapi.Object_Entity{Entity: &topoapi.Entity{}}}
			_ = o.SetAspect(&topoapi.Configurable{Type: string(vType), Version: string(vVer)})
			return o, nil
		}
		if id == topoapi.ID(vConnID(t, S.Devs[t].Gen)) && S.Devs[t].Connected {
			return vRelation(t), nil
		}
	}
	return nil, errors.NewNotFound("object not found")
}

func (s *topoStore) List(ctx context.Context, filters *topoapi.Filters) ([]topoapi.Object, error) {
	if crashed() {
		return nil, errCrash
	}
	var out []topoapi.Object
	for t := 0; t < NT; t++ {
		if S.Devs[t].Connected {
			out = append(out, *vRelation(t))
		}
	}
	return out, nil
}

// vConn is the connection to target t's device. Errors are converted like pkg/southbound/gnmi/client.go does
// (errors.FromGRPC); the real wrapper itself is encoded in the C11 contract harness.
type vConn struct {
	gnmi.Conn
	t int
}

func (c *vConn) ID() gnmi.ConnID { return gnmi.ConnID(vConnID(c.t, S.Devs[c.t].Gen)) }

func electionOf(r *gpb.SetRequest) uint8 {
	for _, e := range r.Extension {
		if ma, ok := e.Ext.(*gnmi_ext.Extension_MasterArbitration); ok && ma.MasterArbitration != nil && ma.MasterArbitration.ElectionId != nil {
			return uint8(ma.MasterArbitration.ElectionId.Low)
		}
	}
	return 0
}

func leafOf(p *gpb.Path) int {
	if p == nil || len(p.Elem) != 1 {
		return -1
	}
	for j := 0; j < NX; j++ {
		if "/"+p.Elem[0].Name == vPath(j) {
			return j
		}
	}
	return -1
}

// DeviceSet is the device model: election-id check, this step's fault code, then deletes before updates.
func DeviceSet(t int, r *gpb.SetRequest) error {
	if crashed() {
		return status.Error(codes.Unavailable, "process stopped")
	}
	d := &S.Devs[t]
	el := electionOf(r)
	if el < d.MaxElection {
		return status.Error(codes.PermissionDenied, "superseded")
	}
	// (work-set runs: a device that answers PermissionDenied although no later master exists is outside the model; the
	// reconciler deliberately waits for the mastership change such an answer announces)
	if WithFaults && P.DevCode != 0 && !(WithWork && P.DevCode == int32(codes.PermissionDenied)) {
		S.Faults++
		return status.Error(codes.Code(P.DevCode), "device fault")
	}
	d.MaxElection = el
	ghostSend(t, el)
	for _, p := range r.Delete {
		if j := leafOf(p); j >= 0 {
			d.Vals[j].Present = false
		}
	}
	for _, u := range r.Update {
		if j := leafOf(u.Path); j >= 0 {
			d.Vals[j].Present = true
		}
	}
	d.Sets++
	Writes++
	return nil
}

// ghost monitors evaluated at the moment a Set is accepted by the device of target t
func ghostSend(t int, el uint8) {
	c := &S.Configs[t]
	if WithSync && el != c.Term {
		S.SendNotMaster = true
	}
	if !InProposalStep || CurT != t {
		S.Devs[t].RepushTerm = el // re-push by the configuration controller
		return
	}
	x := CurX
	S.Devs[t].Got[x] = true
	// log order at the device: a change (or its repetition after a process stop) never follows a later transaction's change
	if S.Devs[t].LastSetTx > uint8(x+1) {
		S.SendAfterLater = true
	}
	S.Devs[t].LastSetTx = uint8(x + 1)
	if c.Committed < uint8(x+1) {
		S.SendBeforeMerge = true
	}
	if WithSync && (c.State == int32(configapi.ConfigurationStatus_SYNCHRONIZING) || c.AppliedTerm != c.Term) {
		S.SendWhileUnsynced = true
	}
	for i := 0; i < x; i++ {
		p := &S.Props[t][i]
		if !p.Exists {
			continue
		}
		// finished applying: recorded in the proposal, or (a process stop between the two writes) already recorded in the
		// configuration's applied index, which is what the protocol goes by
		done := (p.Apply.Present && p.Apply.State != int32(configapi.ProposalApplyPhase_APPLYING)) ||
			(p.Abort.Present && p.Abort.State == int32(configapi.ProposalAbortPhase_ABORTED)) || c.Applied >= uint8(i+1)
		if !done {
			S.SendOutOfOrder = true
		}
	}
}

func (c *vConn) Set(ctx context.Context, r *gpb.SetRequest) (*gpb.SetResponse, error) {
	if err := DeviceSet(c.t, r); err != nil {
		return nil, errors.FromGRPC(err)
	}
	return &gpb.SetResponse{}, nil
}

type connMgr struct{ gnmi.ConnManager }

func (m *connMgr) Get(ctx context.Context, id gnmi.ConnID) (gnmi.Conn, bool) {
	for t := 0; t < NT; t++ {
		if id == gnmi.ConnID(vConnID(t, S.Devs[t].Gen)) && S.Devs[t].Connected {
			return &vConn{t: t}, true
		}
	}
	return nil, false
}

type vPlugin struct{ pluginregistry.ModelPlugin }

func (p *vPlugin) Validate(ctx context.Context, jsonData []byte) error {
	if S.Verdict[CurT][CurX] {
		return nil
	}
	// the plugin did not accept: the error is whatever ModelPluginInfo.Validate can return (typed Invalid for a
	// Valid:false answer, a typed or raw gRPC error of the stream, a wrapped send error)
	switch P.RejectKind {
	case 1:
		return errors.NewUnavailable("model plugin unavailable")
	case 2:
		return status.Error(codes.InvalidArgument, "document refused")
	}
	return errors.NewInvalid("rejected by model")
}

type registry struct{ pluginregistry.PluginRegistry }

func (r *registry) GetPlugin(model configapi.TargetType, version configapi.TargetVersion) (pluginregistry.ModelPlugin, bool) {
	return &vPlugin{}, true
}

// ---- step ----------------------------------------------------------------------------------------

// choices: [0, NX) transaction i; then NT*NX proposals; then NT configuration; NT mastership;
// then environment: append change, append rollback, connect(t), disconnect(t), device restart(t); last = stutter
const (
	ChTx       = 0
	ChProp     = ChTx + NX
	ChCfg      = ChProp + NT*NX
	ChMaster   = ChCfg + NT
	ChAppend   = ChMaster + NT
	ChRollback = ChAppend + 1
	ChConnect  = ChRollback + 1
	ChDisc     = ChConnect + NT
	ChRestart  = ChDisc + NT
	ChStutter  = ChRestart + NT
	ChProbe    = ChStutter + 1 // WithWork: ChProbe+c re-examines record c (reconcile choice c) when no request is pending
	NumChoices = ChProbe + NProbe
)

// Step performs one scheduler choice.
// ---- work sets (WithWork) ---------------------------------------------------------------------------

func wakeTx(idx uint8) {
	for i := 0; i < NX; i++ {
		if idx == uint8(i+1) {
			S.W.Tx[i] = true
		}
	}
}

func wakeProp(t int, idx uint8) {
	for i := 0; i < NX; i++ {
		if idx == uint8(i+1) {
			S.W.Prop[t][i] = true
		}
	}
}

// a transaction event: transaction Watcher -> the transaction
func eventTx(i int) {
	if WithWork {
		S.W.Tx[i] = true
	}
}

// a proposal event: proposal Watcher -> the proposal; transaction ProposalWatcher -> its transaction
func eventProp(t, i int) {
	if WithWork {
		S.W.Prop[t][i] = true
		S.W.Tx[i] = true
	}
}

// a configuration event: configuration Watcher and mastership ConfigurationStoreWatcher -> the configuration;
// proposal ConfigurationWatcher -> the proposals at Configuration.Index and at Status.Applied.Index
func eventCfg(t int) {
	if WithWork {
		S.W.Cfg[t] = true
		S.W.Ms[t] = true
		wakeProp(t, S.Configs[t].Index)
		wakeProp(t, S.Configs[t].Applied)
	}
}

// a topology relation event (connection created / removed): mastership TopoWatcher -> the configuration. Without the
// mastership / configuration controllers in the loop (!WithSync) their reaction is part of the environment: they
// write the new mastership / synchronisation state into the configuration, which is a configuration event
func eventConn(t int) {
	if WithWork {
		S.W.Ms[t] = true
		if !WithSync {
			eventCfg(t)
		}
	}
}

func workEmpty() bool {
	for i := 0; i < NX; i++ {
		if S.W.Tx[i] {
			return false
		}
		for t := 0; t < NT; t++ {
			if S.W.Prop[t][i] {
				return false
			}
		}
	}
	for t := 0; t < NT; t++ {
		if WithSync && (S.W.Cfg[t] || S.W.Ms[t]) {
			return false
		}
	}
	return true
}

// workResult: what the controller framework (onos-lib-go controller.reconcileRequest) does with a Reconcile outcome:
// an error is retried after a back-off, Result.Requeue names the next request
func workResult(self *bool, res controller.Result, err error) {
	if !WithWork {
		return
	}
	if err != nil {
		*self = true
		return
	}
	if res.Requeue.Value == nil {
		if res.RequeueAfter > 0 {
			*self = true
		}
		return
	}
	switch v := res.Requeue.Value.(type) {
	case configapi.Index:
		wakeTx(uint8(v))
	case configapi.ProposalID:
		t, i := propSlot(v)
		if t >= 0 {
			S.W.Prop[t][i] = true
		}
	case configapi.ConfigurationID:
		t := cfgSlot(v)
		if t >= 0 {
			S.W.Cfg[t] = true
		}
	}
}

// coreMoved: did a step change anything but the ghosts
func coreMoved(a, b *State) bool {
	return a.Txs != b.Txs || a.Props != b.Props || a.Configs != b.Configs || devCore(a) != devCore(b)
}

type devCoreT struct {
	Connected   bool
	Gen         bool
	Vals        [NX]PV
	MaxElection uint8
	Sets        uint8
}

func devCore(s *State) [NT]devCoreT {
	var out [NT]devCoreT
	for t := 0; t < NT; t++ {
		d := &s.Devs[t]
		out[t] = devCoreT{d.Connected, d.Gen, d.Vals, d.MaxElection, d.Sets}
	}
	return out
}

// Step runs one scheduler step; with WithWork a reconcile choice is a no-op unless that request is pending, and the
// probe choices (ChProbe+c) re-examine record c when nothing is pending and record whether that changed the state.
func Step(choice int) {
	if WithWork {
		for c := 0; c < ChAppend; c++ {
			if choice == ChProbe+c && workEmpty() {
				snap := S
				step(c, true)
				moved := coreMoved(&S, &snap)
				S = snap
				if moved {
					S.W.IdleMoved = true
				}
			}
		}
	}
	step(choice, false)
}

func step(choice int, probe bool) {
	Writes = 0
	InProposalStep = false
	defer func() {
		if crashed() {
			S.Crashes++
		}
	}()
	txs, props, cfgs, tp, cm := &txStore{}, &propStore{}, &cfgStore{}, &topoStore{}, &connMgr{}
	// every alternative is selected by comparing the (symbolic) choice with a concrete number, so that all
	// identifiers handed to the reconcilers are concrete
	for i := 0; i < NX; i++ {
		if choice == ChTx+i && (!WithWork || probe || S.W.Tx[i]) {
			S.W.Tx[i] = false
			r := transactionctl.NewReconcilerForVerif(txs, props)
			res, err := r.Reconcile(controller.NewID(configapi.Index(i + 1)))
			workResult(&S.W.Tx[i], res, err)
		}
	}
	for t := 0; t < NT; t++ {
		for i := 0; i < NX; i++ {
			if choice == ChProp+t*NX+i && (!WithWork || probe || S.W.Prop[t][i]) {
				S.W.Prop[t][i] = false
				CurT, CurX, InProposalStep = t, i, true
				r := proposalctl.NewReconcilerForVerif(tp, cm, props, cfgs, &registry{})
				res, err := r.Reconcile(controller.NewID(proposalstore.NewID(vTarget(t), configapi.Index(i+1))))
				workResult(&S.W.Prop[t][i], res, err)
			}
		}
		if WithSync && choice == ChCfg+t && (!WithWork || probe || S.W.Cfg[t]) {
			S.W.Cfg[t] = false
			r := configurationctl.NewReconcilerForVerif(tp, cm, cfgs)
			res, err := r.Reconcile(controller.NewID(configuration.NewID(vTarget(t), vType, vVer)))
			workResult(&S.W.Cfg[t], res, err)
		}
		if WithSync && choice == ChMaster+t && (!WithWork || probe || S.W.Ms[t]) {
			S.W.Ms[t] = false
			r := mastershipctl.NewReconcilerForVerif(tp, cfgs)
			res, err := r.Reconcile(controller.NewID(configuration.NewID(vTarget(t), vType, vVer)))
			workResult(&S.W.Ms[t], res, err)
		}
		if choice == ChConnect+t {
			if !S.Devs[t].Connected {
				eventConn(t)
			}
			S.Devs[t].Connected = true
		}
		if WithFaults && choice == ChDisc+t && S.Devs[t].Connected {
			eventConn(t)
			S.Devs[t].Connected = false
			S.Devs[t].Gen = !S.Devs[t].Gen // the next connection gets a new id
			S.Faults++
		}
		if WithFaults && choice == ChRestart+t {
			if S.Devs[t].Connected {
				S.Devs[t].Gen = !S.Devs[t].Gen
				eventConn(t)
			}
			S.Devs[t].Connected = false
			S.Devs[t].Vals = [NX]PV{}
			S.Devs[t].MaxElection = 0
			S.Devs[t].LastSetTx = 0
			S.Devs[t].RepushTerm = 0
			S.Faults++
		}
	}
	if choice == ChAppend {
		envAppend(false)
	}
	if WithRollback && choice == ChRollback {
		envAppend(true)
	}
}

// the northbound appends the next log entry (Set or rollback request accepted by the server)
func envAppend(rollback bool) {
	for i := 0; i < NX; i++ {
		if !S.Txs[i].Exists {
			any := false
			for t := 0; t < NT; t++ {
				any = any || P.ArgTargets[t]
			}
			if rollback {
				S.Txs[i] = Tx{Exists: true, Version: 1, IsRollback: true, RollbackIndex: P.ArgRollback}
				eventTx(i)
			} else if any {
				S.Txs[i] = Tx{Exists: true, Version: 1, Targets: P.ArgTargets}
				eventTx(i)
			}
			return
		}
	}
}
