//go:build verif

package verifv2

import (
	configapi "github.com/onosproject/onos-api/go/onos/config/v2"
	"github.com/onosproject/onos-config/internal/verifrt"
)

const (
	txPENDING   = int32(configapi.TransactionStatus_PENDING)
	txVALIDATED = int32(configapi.TransactionStatus_VALIDATED)
	txCOMMITTED = int32(configapi.TransactionStatus_COMMITTED)
	txAPPLIED   = int32(configapi.TransactionStatus_APPLIED)
	txFAILED    = int32(configapi.TransactionStatus_FAILED)
)

// live: leaf j is readable in target t's stored configuration
func live(t, j int) bool {
	v := &S.Configs[t].Values[j]
	return S.Configs[t].Exists && v.Present && !v.Deleted
}

// altered: target t's stored configuration reflects transaction slot i (its own leaf is live and stamped with its index)
func altered(t, i int) bool {
	return live(t, i) && S.Configs[t].Values[i].Index == uint64(i+1)
}

func txTerminal(i int) bool {
	tx := &S.Txs[i]
	if !tx.Exists {
		return true
	}
	if tx.State == txAPPLIED {
		return true
	}
	// failed: terminal once the abort (if any) has completed, or the apply has failed
	if tx.State == txFAILED {
		if tx.Apply.Present {
			return true
		}
		return tx.Abort.Present && tx.Abort.State == int32(configapi.TransactionAbortPhase_ABORTED)
	}
	return false
}

// StateRange: every index-valued field is a log index (or NX+1 for a rollback request naming a missing entry).
// A type invariant of the harness state; the bounded model checker also checks that it is never left.
func StateRange() bool {
	ok := true
	const m = NX + 1
	for i := 0; i < NX; i++ {
		ok = ok && S.Txs[i].RollbackIndex <= m
		for t := 0; t < NT; t++ {
			p := &S.Props[t][i]
			ok = ok && p.Prev <= m && p.Next <= m && p.RollbackIndex <= m
			for j := 0; j < NX; j++ {
				ok = ok && p.Rollback[j].Index <= m
			}
		}
	}
	for t := 0; t < NT; t++ {
		c := &S.Configs[t]
		ok = ok && c.Index <= m && c.Proposed <= m && c.Committed <= m && c.Applied <= m && S.MaxCommitted[t] <= m
		for j := 0; j < NX; j++ {
			ok = ok && c.Values[j].Index <= m && c.AppliedVals[j].Index <= m
		}
	}
	return ok
}

// StatePredicates names the state predicates used by the bounded model checker (evaluated on S).
func StatePredicates(prefix string) {
	verifrt.Region(prefix+"bad:range", !StateRange())
	// ---- reachability witnesses (vacuity guards)
	verifrt.Region(prefix+"reach:tx1-committed", S.Txs[0].State == txCOMMITTED || S.Txs[0].State == txAPPLIED)
	verifrt.Region(prefix+"reach:tx1-applied", S.Txs[0].State == txAPPLIED)
	verifrt.Region(prefix+"reach:tx1-failed", S.Txs[0].State == txFAILED)
	if NX > 1 {
		verifrt.Region(prefix+"reach:tx2-applied", S.Txs[1].State == txAPPLIED)
		verifrt.Region(prefix+"reach:tx2-failed-aborted", S.Txs[1].State == txFAILED && txTerminal(1))
	}
	allTerminal := true
	for i := 0; i < NX; i++ {
		allTerminal = allTerminal && txTerminal(i)
	}
	verifrt.Region(prefix+"all-terminal", allTerminal)

	// ---- C01: all-or-nothing per change transaction
	partial := false // committed/applied but some named target not altered
	leaked := false  // a verdict is false (or the transaction failed before commit) and some target is altered
	for i := 0; i < NX; i++ {
		tx := &S.Txs[i]
		if !tx.Exists || tx.IsRollback {
			continue
		}
		rejected := false
		for t := 0; t < NT; t++ {
			if tx.Targets[t] && !S.Verdict[t][i] {
				rejected = true
			}
		}
		for t := 0; t < NT; t++ {
			if !tx.Targets[t] {
				continue
			}
			if (tx.State == txCOMMITTED || tx.State == txAPPLIED) && !altered(t, i) && !rolledBackLater(t, i) {
				partial = true
			}
			if (rejected || (tx.State == txFAILED && !tx.Commit.Present)) && altered(t, i) {
				leaked = true
			}
		}
	}
	verifrt.Region(prefix+"bad:c01-committed-but-target-unaltered", partial)
	verifrt.Region(prefix+"bad:c01-rejected-but-target-altered", leaked)

	// ---- C02: ghost monitors
	dec := false
	for t := 0; t < NT; t++ {
		if S.Configs[t].Exists && S.Configs[t].Committed < S.MaxCommitted[t] {
			dec = true
		}
	}
	verifrt.Region(prefix+"bad:c02-committed-index-decreased", dec)
	ahead := false
	for t := 0; t < NT; t++ {
		if S.Configs[t].Exists && S.Configs[t].Applied > S.Configs[t].Committed {
			ahead = true
		}
	}
	verifrt.Region(prefix+"bad:c02-applied-ahead-of-committed", ahead)
}

// a later rollback transaction names slot i and has been committed on target t
func rolledBackLater(t, i int) bool {
	for k := i + 1; k < NX; k++ {
		if S.Txs[k].Exists && S.Txs[k].IsRollback && S.Txs[k].RollbackIndex == uint64(i+1) && S.Txs[k].Commit.Present {
			return true
		}
	}
	return false
}

// StepContracts are obligations on one step from an arbitrary state (guard-shaped: they hold wherever the code
// checks its guard locally, reachable state or not).
func StepContracts(pre *State, choice int) {
	for t := 0; t < NT; t++ {
		a, b := &pre.Configs[t], &S.Configs[t]
		valuesChanged := false
		for j := 0; j < NX; j++ {
			if a.Values[j] != b.Values[j] {
				valuesChanged = true
			}
		}
		if a.Exists && valuesChanged {
			verifrt.Cover("values-changed")
			// C02: a merge happens only by the proposal whose predecessor is the last committed one, and stamps its index
			merger := -1
			if choice >= ChProp && choice < ChCfg && (choice-ChProp)/NX == t {
				merger = (choice - ChProp) % NX
			}
			verifrt.Assert(merger >= 0, "c02-values-change-only-in-proposal-step")
			if merger >= 0 {
				verifrt.Assert(a.Committed == pre.Props[t][merger].Prev, "c02-merge-needs-predecessor-committed")
				verifrt.Assert(b.Committed == uint64(merger+1), "c02-merge-stamps-own-index")
				verifrt.Assert(pre.Props[t][merger].Commit.Present && !pre.Props[t][merger].Abort.Present, "c01-merge-only-in-commit-phase")
			}
		}
	}
}
