//go:build verif

package verifv2

import (
	configapi "github.com/onosproject/onos-api/go/onos/config/v2"
	"github.com/onosproject/onos-config/internal/verifrt"
)

const (
	txPENDING   = int32(configapi.TransactionStatus_PENDING)
	txVALIDATED = int32(configapi.TransactionStatus_VALIDATED)
	txCOMMITTED = int32(configapi.TransactionStatus_COMMITTED)
	txAPPLIED   = int32(configapi.TransactionStatus_APPLIED)
	txFAILED    = int32(configapi.TransactionStatus_FAILED)

	pvVALIDATED = int32(configapi.ProposalValidatePhase_VALIDATED)
	pvFAILED    = int32(configapi.ProposalValidatePhase_FAILED)
	paAPPLYING  = int32(configapi.ProposalApplyPhase_APPLYING)
	paAPPLIED   = int32(configapi.ProposalApplyPhase_APPLIED)
	paFAILED    = int32(configapi.ProposalApplyPhase_FAILED)
)

// StateRange: every index-valued field is a log index (or NX+1 for a rollback request naming a missing entry).
// A type invariant of the harness state; the bounded model checker also checks that it is never left.
func StateRange() bool {
	ok := true
	const m = NX + 1
	for i := 0; i < NX; i++ {
		ok = ok && S.Txs[i].RollbackIndex <= m
		for t := 0; t < NT; t++ {
			p := &S.Props[t][i]
			ok = ok && p.Prev <= m && p.Next <= m && p.RollbackIndex <= m && p.ApplyTerm < 100
			for j := 0; j < NX; j++ {
				ok = ok && p.Rollback[j].Index <= m
			}
		}
	}
	for t := 0; t < NT; t++ {
		c := &S.Configs[t]
		ok = ok && c.Index <= m && c.Proposed <= m && c.Committed <= m && c.Applied <= m && S.MaxCommitted[t] <= m && S.LastMerged[t] <= m
		ok = ok && c.Term < 100 && c.AppliedTerm < 100 && S.Devs[t].MaxElection < 100 && c.Master <= 3 && c.AppliedMaster <= 3
		for j := 0; j < NX; j++ {
			ok = ok && c.Values[j].Index <= m && c.AppliedVals[j].Index <= m
		}
	}
	return ok && S.Crashes < 100 && S.Faults < 100
}

// live: leaf j is readable in target t's stored configuration
func live(t, j int) bool {
	v := &S.Configs[t].Values[j]
	return S.Configs[t].Exists && v.Present && !v.Deleted
}

// altered: target t's stored configuration reflects transaction slot i (its own leaf is live and stamped with its index)
func altered(t, i int) bool {
	return live(t, i) && S.Configs[t].Values[i].Index == uint8(i+1)
}

func txTerminal(i int) bool {
	tx := &S.Txs[i]
	if !tx.Exists {
		return true
	}
	if tx.State == txAPPLIED {
		return true
	}
	// failed: terminal once the abort (if any) has completed, or the apply has failed
	if tx.State == txFAILED {
		if tx.Apply.Present {
			return true
		}
		return tx.Abort.Present && tx.Abort.State == int32(configapi.TransactionAbortPhase_ABORTED)
	}
	return false
}

// a later rollback transaction names slot i and has started committing
func rolledBackLater(i int) bool {
	for k := i + 1; k < NX; k++ {
		if S.Txs[k].Exists && S.Txs[k].IsRollback && S.Txs[k].RollbackIndex == uint8(i+1) && S.Txs[k].Commit.Present {
			return true
		}
	}
	return false
}

// StatePredicates names the state predicates used by the bounded model checker (evaluated on S).
func StatePredicates(prefix string) {
	verifrt.Region(prefix+"bad:range", !StateRange())
	// ---- reachability witnesses (vacuity guards)
	verifrt.Region(prefix+"reach:tx1-committed", S.Txs[0].State == txCOMMITTED || S.Txs[0].State == txAPPLIED)
	verifrt.Region(prefix+"reach:tx1-applied", S.Txs[0].State == txAPPLIED)
	verifrt.Region(prefix+"reach:tx1-applied-alone", S.Txs[0].State == txAPPLIED && !S.Txs[NX-1].Exists)
	verifrt.Region(prefix+"reach:tx1-committed-alone", S.Txs[0].State == txCOMMITTED && !S.Txs[NX-1].Exists)
	verifrt.Region(prefix+"reach:tx1-failed", S.Txs[0].State == txFAILED)
	verifrt.Region(prefix+"reach:tx1-failed-aborted", S.Txs[0].State == txFAILED && txTerminal(0) && !S.Txs[0].Apply.Present)
	verifrt.Region(prefix+"reach:tx1-apply-failed", S.Txs[0].State == txFAILED && S.Txs[0].Apply.Present)
	if NT > 1 {
		verifrt.Region(prefix+"reach:tx1-committed-on-two-targets", S.Txs[0].State == txCOMMITTED && S.Txs[0].Targets[0] && S.Txs[0].Targets[NT-1])
	}
	if NX > 1 {
		verifrt.Region(prefix+"reach:tx2-committed", S.Txs[NX-1].State == txCOMMITTED || S.Txs[NX-1].State == txAPPLIED)
		verifrt.Region(prefix+"reach:tx2-applied", S.Txs[NX-1].State == txAPPLIED)
		verifrt.Region(prefix+"reach:tx2-failed-aborted", S.Txs[NX-1].State == txFAILED && txTerminal(1))
	}
	if NX == 2 || NX == 3 {
		// waypoint classes: each transaction is fresh (-), validated (V), committed but not applied (C), applied (A) or failed (F); the
		// checker continues from one reachable state of a class (name: one letter per transaction, e.g. w-CF-)
		var cls [3][5]bool
		for i := 0; i < NX; i++ {
			t := &S.Txs[i]
			cls[i][0] = !t.Exists
			// committed and not yet applied on any of its targets (the transaction state alone lags behind the proposals)
			unapplied := true
			for tg := 0; tg < NT; tg++ {
				if t.Targets[tg] && S.Configs[tg].Applied >= uint8(i+1) {
					unapplied = false
				}
			}
			cls[i][1] = t.State == txCOMMITTED && unapplied
			cls[i][2] = t.State == txAPPLIED
			cls[i][3] = t.State == txFAILED
			cls[i][4] = t.State == txVALIDATED // validated, its commit phase under way
		}
		// U: the first transaction is validated and NONE of its proposals is committed yet; UF: ... and the second has
		// failed while its abort is still under way (both in flight on the shared targets)
		u := S.Txs[0].State == txVALIDATED
		for tg := 0; tg < NT; tg++ {
			p := &S.Props[tg][0]
			if p.Exists && p.Commit.Present && p.Commit.State == int32(configapi.ProposalCommitPhase_COMMITTED) {
				u = false
			}
		}
		second := NX - 1 // (a variable index: the block is compiled for NX == 1 as well)
		if NX > 2 {
			second = 1
		}
		// B: the abort of the first transaction's proposal (target 0) is under way; BC: ... and the second transaction is
		// committed behind it
		pb0 := &S.Props[0][0]
		ab := pb0.Exists && pb0.Abort.Present && pb0.Abort.State != int32(configapi.ProposalAbortPhase_ABORTED)
		verifrt.Region(prefix+"reach:w-B-", ab && !S.Txs[second].Exists)
		verifrt.Region(prefix+"reach:w-BC", ab && (S.Txs[second].State == txCOMMITTED || S.Txs[second].State == txAPPLIED))
		verifrt.Region(prefix+"reach:w-U-", u && !S.Txs[second].Exists)
		verifrt.Region(prefix+"reach:w-UF", u && S.Txs[second].State == txFAILED && !txTerminal(second))
		const letters = "-CAFV"
		for a := 1; a < 5; a++ {
			for b := 0; b < 5; b++ {
				if NX == 2 {
					verifrt.Region(prefix+"reach:w-"+letters[a:a+1]+letters[b:b+1], cls[0][a] && cls[1][b])
					continue
				}
				for c := 0; c < 5; c++ {
					if b == 0 && c != 0 {
						continue
					}
					verifrt.Region(prefix+"reach:w-"+letters[a:a+1]+letters[b:b+1]+letters[c:c+1], cls[0][a] && cls[1][b] && cls[2][c])
				}
			}
		}
	}
	verifrt.Region(prefix+"reach:resynced-in-second-term", WithSync && S.Configs[0].Exists && S.Configs[0].Term >= 2 && S.Configs[0].AppliedTerm == S.Configs[0].Term && S.Configs[0].Applied > 0)
	verifrt.Region(prefix+"reach:crashed", S.Crashes > 0)
	verifrt.Region(prefix+"reach:fault", S.Faults > 0)
	allTerminal, connected, anyTx := true, true, false
	for i := 0; i < NX; i++ {
		allTerminal = allTerminal && txTerminal(i)
		anyTx = anyTx || S.Txs[i].Exists
	}
	for t := 0; t < NT; t++ {
		connected = connected && S.Devs[t].Connected
	}
	verifrt.Region(prefix+"all-terminal", allTerminal && anyTx)
	// C09 / C07: used together with the fixed-point probe: nothing can move, every target is connected, yet
	// some accepted transaction is not final
	verifrt.Region(prefix+"bad:stranded", !allTerminal && connected)
	// C09 with work sets (WithWork): no request is pending in any controller, yet (first sentence) re-examining a record
	// changed something, or (second sentence) every target is connected and an accepted transaction is not final
	verifrt.Region(prefix+"bad:c09-idle-not-fixed-point", WithWork && S.W.IdleMoved)
	verifrt.Region(prefix+"bad:c09-idle-not-final", WithWork && workEmpty() && !allTerminal && connected)
	verifrt.Region(prefix+"reach:idle-all-terminal", WithWork && workEmpty() && allTerminal && anyTx && S.Txs[NX-1].Exists)
	// C07 (with the fixed-point probe): at quiescence, with every target connected and at most Budget process stops /
	// faults in the history, each change transaction has the outcome it would have had without them:
	// APPLIED if every named target's model accepts it, FAILED otherwise
	wrong := false
	for i := 0; i < NX; i++ {
		tx := &S.Txs[i]
		if !tx.Exists || tx.IsRollback {
			continue
		}
		accepted := true
		for t := 0; t < NT; t++ {
			if tx.Targets[t] && !S.Verdict[t][i] {
				accepted = false
			}
		}
		if accepted && tx.State != txAPPLIED {
			wrong = true
		}
		if !accepted && !(tx.State == txFAILED && txTerminal(i)) {
			wrong = true
		}
	}
	verifrt.Region(prefix+"bad:c07-wrong-outcome-at-quiescence", wrong && connected && S.Crashes <= Budget && S.Faults == 0)

	// ---- C01: all-or-nothing per change transaction
	partial := false // committed/applied but some named target not altered
	leaked := false  // a verdict is false (or the transaction failed before commit) and some target is altered
	for i := 0; i < NX; i++ {
		tx := &S.Txs[i]
		if !tx.Exists || tx.IsRollback {
			continue
		}
		rejected := false
		for t := 0; t < NT; t++ {
			if tx.Targets[t] && !S.Verdict[t][i] {
				rejected = true
			}
		}
		for t := 0; t < NT; t++ {
			if !tx.Targets[t] {
				continue
			}
			if (tx.State == txCOMMITTED || tx.State == txAPPLIED) && !altered(t, i) && !rolledBackLater(i) {
				partial = true
			}
			if (rejected || (tx.State == txFAILED && !tx.Commit.Present)) && altered(t, i) {
				leaked = true
			}
		}
	}
	verifrt.Region(prefix+"bad:c01-committed-but-target-unaltered", partial)
	verifrt.Region(prefix+"bad:c01-rejected-but-target-altered", leaked)

	// ---- C02: ghost monitors
	dec, ahead := false, false
	for t := 0; t < NT; t++ {
		if S.Configs[t].Exists && S.Configs[t].Committed < S.MaxCommitted[t] {
			dec = true
		}
		if S.Configs[t].Exists && S.Configs[t].Applied > S.Configs[t].Committed {
			ahead = true
		}
	}
	verifrt.Region(prefix+"bad:c02-committed-index-decreased", dec)
	verifrt.Region(prefix+"bad:c02-applied-ahead-of-committed", ahead)
	verifrt.Region(prefix+"bad:c02-merge-out-of-order", S.MergeOutOfOrder)
	verifrt.Region(prefix+"bad:c02-send-before-merge", S.SendBeforeMerge)
	verifrt.Region(prefix+"bad:c02-send-out-of-order", S.SendOutOfOrder)
	verifrt.Region(prefix+"bad:c02-sent-after-a-later-change", S.SendAfterLater)
	// a proposal is reported APPLIED although its change never reached the device (C02: every accepted change is sent,
	// in order; C04: the device converges to the stored configuration)
	unsent := false
	for t := 0; t < NT; t++ {
		for i := 0; i < NX; i++ {
			p := &S.Props[t][i]
			if p.Exists && p.Apply.Present && p.Apply.State == int32(configapi.ProposalApplyPhase_APPLIED) && !S.Devs[t].Got[i] {
				unsent = true
			}
		}
	}
	verifrt.Region(prefix+"bad:c02-applied-but-never-sent", unsent)
	// ---- C06: rollbacks
	if WithRollback {
		restoredBad, inadmissible, devBad, rbCommitted, rbFailed := false, false, false, false, false
		for k := 0; k < NX; k++ {
			rb := &S.Txs[k]
			if !rb.Exists || !rb.IsRollback {
				continue
			}
			done := rb.State == txCOMMITTED || rb.State == txAPPLIED
			if done {
				rbCommitted = true
			}
			if rb.State == txFAILED {
				rbFailed = true
			}
			// admissible: names an existing, earlier change transaction that was committed and is the most recent
			// committed change of (all) its targets
			ri := int(rb.RollbackIndex) - 1
			ok := false
			for i := 0; i < k; i++ {
				if i != ri {
					continue
				}
				tgt := &S.Txs[i]
				ok = tgt.Exists && !tgt.IsRollback
				for j := i + 1; j < k; j++ {
					oth := &S.Txs[j]
					if oth.Exists && !oth.IsRollback && (oth.State == txCOMMITTED || oth.State == txAPPLIED) {
						for t := 0; t < NT; t++ {
							if tgt.Targets[t] && oth.Targets[t] {
								ok = false // a later change of a shared target has been committed
							}
						}
					}
				}
				if done {
					for t := 0; t < NT; t++ {
						if tgt.Targets[t] && live(t, i) {
							restoredBad = true // the rolled back leaf is still readable
						}
						if tgt.Targets[t] && rb.State == txAPPLIED && S.Devs[t].Connected && S.Devs[t].Vals[i].Present {
							devBad = true
						}
					}
				}
			}
			if done && !ok {
				inadmissible = true
			}
		}
		verifrt.Region(prefix+"reach:rollback-committed", rbCommitted)
		verifrt.Region(prefix+"reach:rollback-refused", rbFailed)
		verifrt.Region(prefix+"bad:c06-rolled-back-leaf-still-readable", restoredBad)
		verifrt.Region(prefix+"bad:c06-rolled-back-leaf-still-on-device", devBad)
		verifrt.Region(prefix+"bad:c06-inadmissible-rollback-accepted", inadmissible)
	}
	// ---- C10
	verifrt.Region(prefix+"bad:c10-send-with-stale-election-id", S.SendNotMaster)
	verifrt.Region(prefix+"bad:c10-send-before-resync", S.SendWhileUnsynced)
	verifrt.Region(prefix+"bad:c10-resync-without-repush", S.ResyncNoRepush)
}

// StepContracts are obligations on one step from an arbitrary state. A contract that fails from an unreachable
// state is not a finding: the driver asks the bounded model checker for a schedule that reaches the failing step.
func StepContracts(pre *State, choice int) {
	for t := 0; t < NT; t++ {
		a, b := &pre.Configs[t], &S.Configs[t]
		merger := -1
		for i := 0; i < NX; i++ {
			if choice == ChProp+t*NX+i {
				merger = i
			}
		}
		if a.Exists && a.Values != b.Values {
			verifrt.Cover("values-changed")
			// C02: a merge happens only by the proposal whose predecessor is the last committed one, and stamps its index
			verifrt.Assert(merger >= 0, "c02-values-change-only-in-proposal-step")
			if merger >= 0 {
				pp := &pre.Props[t][merger]
				verifrt.Assert(a.Committed == pp.Prev, "c02-merge-needs-predecessor-committed")
				verifrt.Assert(b.Committed == uint8(merger+1), "c02-merge-stamps-own-index")
				verifrt.Assert(pp.Commit.Present && !pp.Abort.Present && !pp.Apply.Present, "c01-merge-only-in-commit-phase")
			}
		}
		// C02/C10: index and term fields never decrease in a reconcile step
		linked := true // structural invariant of the per-target chain: a predecessor index is below the own index
		for i := 0; i < NX; i++ {
			linked = linked && pre.Props[t][i].Prev < uint8(i+1)
		}
		if a.Exists && b.Exists && linked {
			verifrt.Assert(b.Applied >= a.Applied, "c02-applied-index-never-decreases")
			verifrt.Assert(b.Proposed >= a.Proposed, "c02-proposed-index-never-decreases")
			verifrt.Assert(b.Term >= a.Term, "c10-term-never-decreases")
			if WithSync {
				// C10: a new term begins exactly when mastership is assigned again; the master is a live connection
				if b.Master != a.Master && b.Master != 0 {
					verifrt.Cover("master-assigned")
					verifrt.Assert(b.Term == a.Term+1, "c10-new-master-starts-a-new-term")
					verifrt.Assert(S.Devs[t].Connected && b.Master == curGen(t), "c10-master-is-a-live-connection")
				}
				if b.Master == a.Master {
					verifrt.Assert(b.Term == a.Term, "c10-term-changes-only-with-the-master")
				}
				if a.Master != 0 && b.Master == 0 {
					verifrt.Assert(!pre.Devs[t].Connected || a.Master != curGen(t), "c10-resign-only-without-connection")
				}
				// no new change is sent in a term until the previously applied configuration has been re-sent in that term:
				// the applied term catches up only by the configuration controller's re-push step
				if b.AppliedTerm != a.AppliedTerm {
					verifrt.Assert(choice == ChCfg+t && b.AppliedTerm == a.Term && a.State == int32(configapi.ConfigurationStatus_SYNCHRONIZING), "c10-applied-term-advances-only-by-resync")
				}
			}
		}
		// C02: the per-target chain: a proposal is linked behind the proposal the configuration has proposed last
		for i := 0; i < NX; i++ {
			pa, pb := &pre.Props[t][i], &S.Props[t][i]
			if pa.Exists && pb.Exists && pa.Prev != pb.Prev && a.Exists {
				verifrt.Cover("linked")
				verifrt.Assert(pb.Prev == a.Proposed, "c02-linked-behind-the-last-proposed")
			}
		}
		// C05 / C01: a proposal becomes VALIDATED only with a true verdict of this very step, on top of its predecessor's commit
		for i := 0; i < NX; i++ {
			pa, pb := &pre.Props[t][i], &S.Props[t][i]
			was := pa.Validate.Present && pa.Validate.State == pvVALIDATED
			is := pb.Validate.Present && pb.Validate.State == pvVALIDATED
			if pa.Exists && !was && is {
				verifrt.Cover("validated")
				verifrt.Assert(choice == ChProp+t*NX+i, "c05-validated-only-by-own-proposal-step")
				verifrt.Assert(S.Verdict[t][i], "c05-validated-needs-plugin-acceptance")
				verifrt.Assert(pa.Prev == 0 || a.Committed == pa.Prev, "c05-validation-on-top-of-predecessor-commit")
				verifrt.Assert(a.Values == b.Values, "c05-validation-leaves-configuration-untouched")
			}
			// C01/C09: an aborted proposal moves both indexes of its target past itself (otherwise every later
			// proposal of that target waits for it forever)
			wasAb := pa.Abort.Present && pa.Abort.State == int32(configapi.ProposalAbortPhase_ABORTED)
			isAb := pb.Abort.Present && pb.Abort.State == int32(configapi.ProposalAbortPhase_ABORTED)
			if pa.Exists && !wasAb && isAb {
				verifrt.Cover("aborted")
				verifrt.Assert(b.Committed >= uint8(i+1) && b.Applied >= uint8(i+1), "c09-aborted-proposal-passes-both-indexes")
				verifrt.Assert(a.Values == b.Values, "c01-abort-never-touches-values")
			}
			// C11: an apply that failed is recorded with a failure, advances the applied index, leaves applied values alone
			wasF := pa.Apply.Present && pa.Apply.State == paFAILED
			isF := pb.Apply.Present && pb.Apply.State == paFAILED
			if pa.Exists && !wasF && isF {
				verifrt.Cover("apply-failed")
				verifrt.Assert(pb.ApplyFailed, "c11-failed-apply-records-failure")
				verifrt.Assert(b.Applied == uint8(i+1), "c11-failed-apply-advances-applied-index")
				verifrt.Assert(a.AppliedVals == b.AppliedVals, "c11-failed-apply-leaves-applied-values")
				verifrt.Assert(pre.Devs[t].Vals == S.Devs[t].Vals, "c11-failed-apply-leaves-device")
			}
		}
	}
	// C11: what a device answer does to the change being applied
	if WithFaults && S.Faults > pre.Faults && P.DevCode != 0 {
		for t := 0; t < NT; t++ {
			for i := 0; i < NX; i++ {
				if choice != ChProp+t*NX+i {
					continue
				}
				verifrt.Cover("device-fault-in-apply")
				code := P.DevCode
				snap := S
				snap.Faults = pre.Faults
				if code == 14 || code == 1 || code == 4 || code == 7 {
					// unreachable / slow device (Unavailable, Canceled, DeadlineExceeded) or superseded mastership
					// (PermissionDenied): the change is not failed, it stays pending
					verifrt.Assert(snap == *pre, "c11-unreachable-or-superseded-leaves-change-pending")
				} else {
					pb := &S.Props[t][i]
					verifrt.Assert(pb.Apply.Present && pb.Apply.State == paFAILED && pb.ApplyFailed, "c11-refusal-fails-the-change")
					verifrt.Assert(pb.ApplyFailType == failureClassOf(code), "c11-refusal-recorded-with-the-device-error-class")
				}
			}
		}
	}
	// C01: a transaction enters Commit only if every one of its proposals is VALIDATED, never if one FAILED
	for i := 0; i < NX; i++ {
		ta, tb := &pre.Txs[i], &S.Txs[i]
		tvA := ta.Validate.Present && ta.Validate.State == int32(configapi.TransactionValidatePhase_VALIDATED)
		tvB := tb.Validate.Present && tb.Validate.State == int32(configapi.TransactionValidatePhase_VALIDATED)
		if ta.Exists && !tvA && tvB {
			verifrt.Cover("tx-validated")
			tg := txTargetsOf(pre, i)
			for t := 0; t < NT; t++ {
				if tg[t] && ta.ProposalsSet {
					pp := &pre.Props[t][i]
					verifrt.Assert(pp.Exists && pp.Validate.Present && pp.Validate.State == pvVALIDATED, "c01-transaction-validated-needs-all-proposals-validated")
				}
			}
		}
		if ta.Exists && !ta.Commit.Present && tb.Commit.Present {
			verifrt.Cover("tx-commit-opened")
			verifrt.Assert(tvA && !ta.Abort.Present, "c01-commit-opens-only-after-transaction-validated")
		}
		// C05/C01: a proposal's commit phase is opened only by its transaction, in the transaction's commit phase
		for t := 0; t < NT; t++ {
			pa, pb := &pre.Props[t][i], &S.Props[t][i]
			if pa.Exists && !pa.Commit.Present && pb.Commit.Present {
				verifrt.Assert(choice == ChTx+i, "c05-proposal-commit-opened-only-by-its-transaction")
				verifrt.Assert(ta.Commit.Present && !ta.Abort.Present, "c05-proposal-commit-opened-only-in-transaction-commit-phase")
			}
		}
	}
}

// failureClassOf: the Failure_Type that corresponds to a gRPC code (UNKNOWN where no class exists)
func failureClassOf(code int32) int32 {
	switch code {
	case 1:
		return int32(configapi.Failure_CANCELED)
	case 5:
		return int32(configapi.Failure_NOT_FOUND)
	case 6:
		return int32(configapi.Failure_ALREADY_EXISTS)
	case 16:
		return int32(configapi.Failure_UNAUTHORIZED)
	case 7:
		return int32(configapi.Failure_FORBIDDEN)
	case 9:
		return int32(configapi.Failure_CONFLICT)
	case 3:
		return int32(configapi.Failure_INVALID)
	case 14:
		return int32(configapi.Failure_UNAVAILABLE)
	case 12:
		return int32(configapi.Failure_NOT_SUPPORTED)
	case 4:
		return int32(configapi.Failure_TIMEOUT)
	case 13:
		return int32(configapi.Failure_INTERNAL)
	}
	return int32(configapi.Failure_UNKNOWN)
}

func curGen(t int) uint8 {
	if S.Devs[t].Gen {
		return 2
	}
	return 1
}

func txTargetsOf(st *State, i int) [NT]bool {
	rec := &st.Txs[i]
	if !rec.IsRollback {
		return rec.Targets
	}
	var none [NT]bool
	if rec.RollbackIndex < 1 || rec.RollbackIndex > NX {
		return none
	}
	return st.Txs[rec.RollbackIndex-1].Targets
}
