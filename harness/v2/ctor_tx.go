//go:build verif

package transaction

import (
	proposalstore "github.com/onosproject/onos-config/pkg/store/v2/proposal"
	transactionstore "github.com/onosproject/onos-config/pkg/store/v2/transaction"
)

// NewReconcilerForVerif builds a Reconciler over the given stores (the fields are unexported).
func NewReconcilerForVerif(t transactionstore.Store, p proposalstore.Store) *Reconciler {
	return &Reconciler{transactions: t, proposals: p}
}
