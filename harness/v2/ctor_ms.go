//go:build verif

package mastership

import (
	"github.com/onosproject/onos-config/pkg/store/topo"
	"github.com/onosproject/onos-config/pkg/store/v2/configuration"
)

// NewReconcilerForVerif builds a Reconciler over the given stores (the fields are unexported).
func NewReconcilerForVerif(t topo.Store, cfg configuration.Store) *Reconciler {
	return &Reconciler{topo: t, configurations: cfg}
}
