//go:build verif

package utils

import (
	"github.com/grpc-ecosystem/go-grpc-middleware/util/metautils"
	"github.com/onosproject/onos-config/internal/verifrt"
)

// vExactMember is the oracle: some non-empty ';'-separated group equals some ','-separated admin group.
// Written byte-wise on purpose (no strings.* calls) so that it does not share intrinsics with the code under test.
func vExactMember(groups, admin string) bool {
	gi := 0
	for gi <= len(groups) {
		gj := gi
		for gj < len(groups) && groups[gj] != ';' {
			gj++
		}
		if gj > gi {
			ai := 0
			for ai <= len(admin) {
				aj := ai
				for aj < len(admin) && admin[aj] != ',' {
					aj++
				}
				if aj-ai == gj-gi && admin[ai:aj] == groups[gi:gj] {
					return true
				}
				ai = aj + 1
			}
		}
		gi = gj + 1
	}
	return false
}

// VerifC14: Set is permitted iff one of the caller's groups is exactly one of the admin groups.
func VerifC14() {
	groups := verifrt.NondetString("groups", 3, "aA;")
	admin := verifrt.NondetString("admin", 3, "aA,")
	verifrt.SetEnv("ADMINGROUPS", admin)
	md := metautils.NiceMD{}
	md.Set("groups", groups)
	err := TemporaryEvaluate(md)
	verifrt.Cover("end")
	want := vExactMember(groups, admin)
	if want {
		verifrt.Cover("member")
	}
	verifrt.Assert((err == nil) == want, "allowed-iff-exact-member")
}
