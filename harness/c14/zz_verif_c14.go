//go:build verif

package utils

import (
	"github.com/grpc-ecosystem/go-grpc-middleware/util/metautils"
	"github.com/onosproject/onos-config/internal/verifrt"
)

// vExactMember is the oracle: some non-empty ';'-separated group equals some ','-separated admin group.
// Written byte-wise on purpose (no strings.* calls) so that it does not share intrinsics with the code under test.
func vExactMember(groups, admin string) bool {
	gi := 0
	for gi <= len(groups) {
		gj := gi
		for gj < len(groups) && groups[gj] != ';' {
			gj++
		}
		if gj > gi {
			ai := 0
			for ai <= len(admin) {
				aj := ai
				for aj < len(admin) && admin[aj] != ',' {
					aj++
				}
				if aj-ai == gj-gi && admin[ai:aj] == groups[gi:gj] {
					return true
				}
				ai = aj + 1
			}
		}
		gi = gj + 1
	}
	return false
}

// VerifC14: with identity metadata attached, Set is permitted iff one of the caller's groups is exactly one of
// the admin groups. Scenario 0: "groups" present (any text, incl. empty); scenario 1: identity present (name)
// but no "groups" key at all -> must be refused.
func VerifC14() {
	lg, la := verifrt.Param("groupslen"), verifrt.Param("adminlen")
	admin := verifrt.NondetString("admin", la, "abA,")
	verifrt.SetEnv("ADMINGROUPS", admin)
	md := metautils.NiceMD{}
	groups := ""
	if verifrt.Fork("scenario", 2) == 0 {
		groups = verifrt.NondetString("groups", lg, "abA;")
		md.Set("groups", groups)
		if verifrt.NondetBool("withname") {
			md.Set("name", "alice")
		}
	} else {
		md.Set("name", "alice")
		md.Set("preferred_username", "alice")
	}
	err := TemporaryEvaluate(md)
	verifrt.Cover("end")
	want := vExactMember(groups, admin)
	if want {
		verifrt.Cover("member")
	}
	verifrt.Assert((err == nil) == want, "allowed-iff-exact-member")
}
