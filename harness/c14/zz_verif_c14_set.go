//go:build verif

package gnmi

// C14 at the handler: the REAL Server.Set with identity metadata in the request context. With any identity key present
// (the claims the authentication interceptor copies: preferred_username, name, email, groups - each present or absent
// independently) Set is permitted iff one of the caller's groups is exactly one of the ADMINGROUPS entries; a refused
// Set logs nothing. Without any identity metadata the request is served.

import (
	"context"

	configapi "github.com/onosproject/onos-api/go/onos/config/v2"
	"github.com/onosproject/onos-config/internal/verifrt"
	"github.com/openconfig/gnmi/proto/gnmi"
	"google.golang.org/grpc/metadata"
)

// byte-wise oracle (no strings.* calls): some non-empty ';'-separated group equals some ','-separated admin group
func c14Member(groups, admin string) bool {
	gi := 0
	for gi <= len(groups) {
		gj := gi
		for gj < len(groups) && groups[gj] != ';' {
			gj++
		}
		if gj > gi {
			ai := 0
			for ai <= len(admin) {
				aj := ai
				for aj < len(admin) && admin[aj] != ',' {
					aj++
				}
				if aj-ai == gj-gi && admin[ai:aj] == groups[gi:gj] {
					return true
				}
				ai = aj + 1
			}
		}
		gi = gj + 1
	}
	return false
}

func VerifC14Set() {
	admin := verifrt.NondetString("admin", verifrt.Param("adminlen"), "ab,")
	verifrt.SetEnv("ADMINGROUPS", admin)
	md := metadata.MD{}
	identified := false
	groups := ""
	// which claims travel with the request: one case per subset
	claims := verifrt.Fork("claims", 16)
	if claims&1 != 0 {
		md["name"] = []string{"alice"}
		identified = true
	}
	if claims&2 != 0 {
		md["preferred_username"] = []string{"al"}
		identified = true
	}
	if claims&4 != 0 {
		md["email"] = []string{"a@b"}
		identified = true
	}
	if claims&8 != 0 {
		groups = verifrt.NondetString("groups", verifrt.Param("groupslen"), "ab;")
		md["groups"] = []string{groups}
		identified = true
	}
	ctx := context.Background()
	if claims != 0 || verifrt.NondetBool("empty-metadata") {
		ctx = metadata.NewIncomingContext(ctx, md)
	}
	srv := vServer()
	vNEvents = 1
	vStates[0] = int32(configapi.TransactionStatus_APPLIED)
	vCreated = 0
	req := &gnmi.SetRequest{Prefix: &gnmi.Path{Target: "t1"}, Update: []*gnmi.Update{{
		Path: &gnmi.Path{Elem: []*gnmi.PathElem{{Name: "a"}, {Name: "b"}}},
		Val:  &gnmi.TypedValue{Value: &gnmi.TypedValue_StringVal{StringVal: "v"}}}}}
	_, err := srv.Set(ctx, req)
	verifrt.Cover("answered")
	allowed := !identified || c14Member(groups, admin)
	if allowed {
		verifrt.Cover("allowed")
		verifrt.Assert(err == nil && vCreated == 1, "admin-or-unauthenticated-set-is-served")
	} else {
		verifrt.Cover("refused")
		verifrt.Assert(err != nil, "caller-outside-the-admin-groups-is-refused")
		verifrt.Assert(vCreated == 0, "refused-set-logs-nothing")
	}
}
