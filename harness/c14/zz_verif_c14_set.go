//go:build verif

package gnmi

// C14 at the handler: the REAL Server.Set with identity metadata in the request context. With any identity key present
// (the claims the authentication interceptor copies: preferred_username, name, email, groups - each present or absent
// independently) Set is permitted iff one of the caller's groups is exactly one of the ADMINGROUPS entries; a refused
// Set logs nothing. Without any identity metadata the request is served.

import (
	"context"

	configapi "github.com/onosproject/onos-api/go/onos/config/v2"
	"github.com/onosproject/onos-config/internal/verifrt"
	"github.com/openconfig/gnmi/proto/gnmi"
	"google.golang.org/grpc/metadata"
)

// byte-wise oracle (no strings.* calls): some non-empty ';'-separated group equals some ','-separated admin group
func c14Member(groups, admin string) bool {
	gi := 0
	for gi <= len(groups) {
		gj := gi
		for gj < len(groups) && groups[gj] != ';' {
			gj++
		}
		if gj > gi {
			ai := 0
			for ai <= len(admin) {
				aj := ai
				for aj < len(admin) && admin[aj] != ',' {
					aj++
				}
				if aj-ai == gj-gi && admin[ai:aj] == groups[gi:gj] {
					return true
				}
				ai = aj + 1
			}
		}
		gi = gj + 1
	}
	return false
}

func VerifC14Set() {
	admin := verifrt.NondetString("admin", verifrt.Param("adminlen"), "ab,")
	verifrt.SetEnv("ADMINGROUPS", admin)
	md := metadata.MD{}
	identified := false
	groups := ""
	// which claims travel with the request: one case per subset
	claims := verifrt.Fork("claims", 16)
	if claims&1 != 0 {
		md["name"] = []string{"alice"}
		identified = true
	}
	if claims&2 != 0 {
		md["preferred_username"] = []string{"al"}
		identified = true
	}
	if claims&4 != 0 {
		md["email"] = []string{"a@b"}
		identified = true
	}
	if claims&8 != 0 {
		groups = verifrt.NondetString("groups", verifrt.Param("groupslen"), "ab;")
		md["groups"] = []string{groups}
		identified = true
	}
	ctx := context.Background()
	if claims != 0 || verifrt.NondetBool("empty-metadata") {
		ctx = metadata.NewIncomingContext(ctx, md)
	}
	srv := vServer()
	vNEvents = 1
	vStates[0] = int32(configapi.TransactionStatus_APPLIED)
	vCreated = 0
	req := &gnmi.SetRequest{Prefix: &gnmi.Path{Target: "t1"}, Update: []*gnmi.Update{{
		Path: &gnmi.Path{Elem: []*gnmi.PathElem{{Name: "a"}, {Name: "b"}}},
		Val:  &gnmi.TypedValue{Value: &gnmi.TypedValue_StringVal{StringVal: "v"}}}}}
	_, err := srv.Set(ctx, req)
	verifrt.Cover("answered")
	allowed := !identified || c14Member(groups, admin)
	if allowed {
		verifrt.Cover("allowed")
		verifrt.Assert(err == nil && vCreated == 1, "admin-or-unauthenticated-set-is-served")
	} else {
		verifrt.Cover("refused")
		verifrt.Assert(err != nil, "caller-outside-the-admin-groups-is-refused")
		verifrt.Assert(vCreated == 0, "refused-set-logs-nothing")
	}
}

// c14HasGroup: byte-wise oracle: g is exactly one of the ';'-separated groups
func c14HasGroup(groups, g string) bool {
	gi := 0
	for gi <= len(groups) {
		gj := gi
		for gj < len(groups) && groups[gj] != ';' {
			gj++
		}
		if gj-gi == len(g) && groups[gi:gj] == g {
			return true
		}
		gi = gj + 1
	}
	return false
}

// VerifC14List: listing all targets (target "*"). Under authorization (OIDC_SERVER_URL set) an identified caller is
// shown exactly the targets named by its own groups, or every target if it holds the ROC-admin group; without
// authorization every target is listed. The topology holds t1 and t2.
func VerifC14List() {
	secured := verifrt.Fork("secured", 2) == 1 // (environment variables are not path-sensitive in the engine: one case each)
	if secured {
		verifrt.SetEnv("OIDC_SERVER_URL", "http://oidc")
	} else {
		verifrt.SetEnv("OIDC_SERVER_URL", "")
	}
	verifrt.SetEnv("AetherROCAdmin", "ra") // the name of the ROC-admin group (overridable by this variable)
	groups := verifrt.NondetString("groups", verifrt.Param("groupslen"), "t12;ra")
	md := metadata.MD{"groups": []string{groups}}
	named := verifrt.NondetBool("name-claim")
	if named {
		md["name"] = []string{"alice"}
	}
	ctx := metadata.NewIncomingContext(context.Background(), md)
	srv := vServer()
	viaPath := verifrt.NondetBool("star-on-the-path")
	req := &gnmi.GetRequest{Encoding: gnmi.Encoding_PROTO, Path: []*gnmi.Path{{}}}
	if viaPath {
		req.Path[0].Target = "*"
	} else {
		req.Prefix = &gnmi.Path{Target: "*"}
	}
	resp, err := srv.Get(ctx, req)
	verifrt.Cover("answered")
	verifrt.Assert(err == nil && resp != nil && len(resp.Notification) == 1 && len(resp.Notification[0].Update) == 1, "listing-answered")
	if err != nil || resp == nil || len(resp.Notification) != 1 || len(resp.Notification[0].Update) != 1 {
		return
	}
	ll, ok := resp.Notification[0].Update[0].Val.Value.(*gnmi.TypedValue_LeaflistVal)
	verifrt.Assert(ok && ll.LeaflistVal != nil, "listing-is-a-leaf-list")
	if !ok || ll.LeaflistVal == nil {
		return
	}
	seen1, seen2, other := 0, 0, 0
	for _, e := range ll.LeaflistVal.Element {
		switch e.GetStringVal() {
		case "t1":
			seen1++
		case "t2":
			seen2++
		default:
			other++
		}
	}
	// the groups count only for an identified caller (the handler reads them when the name claim is present)
	admin := named && c14HasGroup(groups, "ra")
	want1 := !secured || admin || (named && c14HasGroup(groups, "t1"))
	want2 := !secured || admin || (named && c14HasGroup(groups, "t2"))
	if secured && !admin {
		verifrt.Cover("restricted")
	}
	verifrt.Assert(other == 0 && seen1 <= 1 && seen2 <= 1, "only-known-targets-each-once")
	verifrt.Assert((seen1 == 1) == want1 && (seen2 == 1) == want2, "caller-sees-exactly-the-targets-of-its-groups-unless-roc-admin")
}
