//go:build verif

package utils

import (
	"github.com/onosproject/onos-config/internal/verifgen"
	"github.com/onosproject/onos-config/internal/verifrt"
	pathutils "github.com/onosproject/onos-config/pkg/utils/path"
	pb "github.com/openconfig/gnmi/proto/gnmi"
)

// name bytes: YANG identifier bytes + module separator; key values: accepted index bytes + every escape-worthy byte
const (
	vNameAlpha = "aZ9_-.:"
	vKeyAlpha  = "ab_"
	vValAlpha  = "a1-._*:/[]=\\"
)

func vShape() verifgen.Shape {
	// the tier selects the bounds (values injected by the driver through Fork-free constants)
	return verifgen.Shape{MaxElems: verifrt.Param("elems"), MaxKeys: verifrt.Param("keys"), NameLen: verifrt.Param("namelen"),
		ValLen: verifrt.Param("vallen"), NameAlpha: vNameAlpha, KeyAlpha: vKeyAlpha, ValAlpha: vValAlpha}
}

// VerifC16Roundtrip (R1, R3): Parse(Split(Str(p))) == p, element for element, key for key.
func VerifC16Roundtrip() {
	elems := verifgen.Elems("p", vShape())
	s := StrPathElem(elems)
	toks := SplitPath(s)
	verifrt.Cover("rendered")
	verifrt.Assert(len(toks) == len(elems), "split-count")
	parsed, err := ParseGNMIElements(toks)
	verifrt.Assert(err == nil, "parses")
	if err == nil {
		verifrt.Cover("parsed")
		verifrt.Assert(verifgen.SameElems(parsed.Elem, elems), "roundtrip")
	}
	// StrPath on the path object is the same text
	verifrt.Assert(StrPath(&pb.Path{Elem: elems}) == s, "strpath")
}

// VerifC16Parent (R4): the parent of a rendered path is the rendering of the path without its last element.
func VerifC16Parent() {
	elems := verifgen.Elems("p", vShape())
	s := StrPathElem(elems)
	verifrt.Cover("rendered")
	want := ""
	if len(elems) > 1 {
		want = StrPathElem(elems[:len(elems)-1])
	}
	verifrt.Assert(pathutils.GetParentPath(s) == want, "parent")
}
