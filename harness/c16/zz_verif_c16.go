//go:build verif

package utils

import (
	pathutils "github.com/onosproject/onos-config/pkg/utils/path"
	"github.com/onosproject/onos-config/internal/verifrt"
	pb "github.com/openconfig/gnmi/proto/gnmi"
)

// VerifC16Roundtrip: one path element, optional single key; render, split, parse, compare.
func VerifC16Roundtrip() {
	name := verifrt.NondetString("name", 2, "ab-")
	verifrt.Assume(len(name) >= 1)
	hasKey := verifrt.NondetBool("haskey")
	kname := verifrt.NondetString("kname", 1, "k")
	verifrt.Assume(len(kname) == 1)
	kval := verifrt.NondetString("kval", 2, "a/]\\[=")
	verifrt.Assume(len(kval) >= 1)
	elem := &pb.PathElem{Name: name}
	if hasKey {
		elem.Key = map[string]string{kname: kval}
	}
	s := StrPathElem([]*pb.PathElem{elem})
	toks := SplitPath(s)
	verifrt.Cover("rendered")
	verifrt.Assert(len(s) < 11, "len-lt-11")
	verifrt.Assert(len(s) < 12, "len-lt-12")
	verifrt.Assert(len(toks) == 1, "one-token")
	parsed, err := ParseGNMIElements(toks)
	verifrt.Assert(err == nil, "parses")
	if err == nil && len(toks) == 1 {
		verifrt.Cover("parsed")
		verifrt.Assert(len(parsed.Elem) == 1, "one-elem")
		got := parsed.Elem[0]
		verifrt.Assert(got.Name == name, "name")
		if hasKey {
			v, ok := got.Key[kname]
			verifrt.Assert(ok && v == kval && len(got.Key) == 1, "key")
		} else {
			verifrt.Assert(len(got.Key) == 0, "nokey")
		}
	}
}

// VerifC16Parent: the parent of a rendered two-element path is the rendering of its first element.
func VerifC16Parent() {
	n1 := verifrt.NondetString("n1", 1, "ab")
	verifrt.Assume(len(n1) == 1)
	n2 := verifrt.NondetString("n2", 1, "ab")
	verifrt.Assume(len(n2) == 1)
	kval := verifrt.NondetString("kval", 2, "a/-")
	verifrt.Assume(len(kval) >= 1)
	e1 := &pb.PathElem{Name: n1}
	e2 := &pb.PathElem{Name: n2, Key: map[string]string{"k": kval}}
	s := StrPathElem([]*pb.PathElem{e1, e2})
	verifrt.Cover("rendered")
	verifrt.Assert(pathutils.GetParentPath(s) == StrPathElem([]*pb.PathElem{e1}), "parent")
}
