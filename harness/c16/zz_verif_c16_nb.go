//go:build verif

package gnmi

import (
	configapi "github.com/onosproject/onos-api/go/onos/config/v2"
	"github.com/onosproject/onos-config/internal/verifgen"
	"github.com/onosproject/onos-config/internal/verifrt"
	"github.com/onosproject/onos-config/pkg/utils"
	"github.com/openconfig/gnmi/proto/gnmi"
)

func vC16Shape() verifgen.Shape {
	return verifgen.Shape{MaxElems: verifrt.Param("elems"), MaxKeys: verifrt.Param("keys"), NameLen: verifrt.Param("namelen"),
		ValLen: verifrt.Param("vallen"), NameAlpha: "aZ9_-.:", KeyAlpha: "ab_", ValAlpha: "a1-._*:/[]=\\"}
}

// VerifC16SetResponse (R5): the path reported in the SetResponse is the path the client named.
func VerifC16SetResponse() {
	elems := verifgen.Elems("p", vC16Shape())
	s := utils.StrPathElem(elems)
	res, err := newUpdateResult(s, "t1", gnmi.UpdateResult_UPDATE)
	verifrt.Cover("converted")
	verifrt.Assert(err == nil, "setresponse-converts")
	if err == nil {
		verifrt.Assert(verifgen.SameElems(res.Path.Elem, elems) && res.Path.Target == "t1", "setresponse-path")
	}
}

// VerifC16GetUpdate (R5): the path of a PROTO-encoded Get update is the stored path.
func VerifC16GetUpdate() {
	elems := verifgen.Elems("p", vC16Shape())
	s := utils.StrPathElem(elems)
	pv := &configapi.PathValue{Path: s, Value: *configapi.NewTypedValueString("v")}
	ups, err := createUpdate(nil, &gnmi.Path{Target: "t1"}, []*configapi.PathValue{pv}, gnmi.Encoding_PROTO)
	verifrt.Cover("converted")
	verifrt.Assert(err == nil, "get-converts")
	if err == nil {
		verifrt.Assert(len(ups) == 1 && verifgen.SameElems(ups[0].Path.Elem, elems) && ups[0].Path.Target == "t1", "get-path")
	}
}
