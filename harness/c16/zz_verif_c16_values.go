//go:build verif

package values

import (
	configapi "github.com/onosproject/onos-api/go/onos/config/v2"
	"github.com/onosproject/onos-config/internal/verifgen"
	"github.com/onosproject/onos-config/internal/verifrt"
	"github.com/onosproject/onos-config/pkg/utils"
)

// VerifC16Southbound (R5): the path placed in the southbound SetRequest, computed by the real
// PathValuesToGnmiChange from the stored textual path, is the path the client named.
func VerifC16Southbound() {
	sh := verifgen.Shape{MaxElems: verifrt.Param("elems"), MaxKeys: verifrt.Param("keys"), NameLen: verifrt.Param("namelen"),
		ValLen: verifrt.Param("vallen"), NameAlpha: "aZ9_-.:", KeyAlpha: "ab_", ValAlpha: "a1-._*:/[]=\\"}
	elems := verifgen.Elems("p", sh)
	s := utils.StrPathElem(elems)
	del := verifrt.NondetBool("deleted")
	pv := &configapi.PathValue{Path: s, Deleted: del, Value: *configapi.NewTypedValueString("v")}
	req, err := PathValuesToGnmiChange([]*configapi.PathValue{pv}, "t1")
	verifrt.Cover("converted")
	verifrt.Assert(err == nil, "southbound-converts")
	if err == nil {
		if del {
			verifrt.Assert(len(req.Delete) == 1 && len(req.Update) == 0 && verifgen.SameElems(req.Delete[0].Elem, elems), "southbound-delete-path")
		} else {
			verifrt.Assert(len(req.Update) == 1 && len(req.Delete) == 0 && verifgen.SameElems(req.Update[0].Path.Elem, elems), "southbound-update-path")
		}
		verifrt.Assert(req.Prefix != nil && req.Prefix.Target == "t1", "southbound-target")
	}
}
