#!/bin/bash
# seed_sweep.sh [tier] : try every seeded change of /verif/seeded against the check of its property, in a scratch worktree
# (VERIF_REPO), with evidence and replays written to a scratch directory. Output: /verif/seeded/SWEEP_<tier>.txt
tier=${1:-quick}
wt=/tmp/wt/sweep
out=/verif/seeded/SWEEP_$tier.txt
git -C /repo worktree remove --force $wt 2>/dev/null
git -C /repo worktree add -q --detach $wt HEAD || exit 2
export VERIF_EVIDENCE_DIR=/tmp/sweep_evidence VERIF_REPLAY_DIR=/tmp/sweep_replays VERIF_REPO=$wt
: > $out
for d in /verif/seeded/[c-z][0-9]*/; do
  id=$(basename $d); prop=$(python3 -c "import json;print(json.load(open('$d/meta.json'))['property'])")
  checks="$prop"
  [ "$id" = c03 ] && checks="C03 C16"
  [ "$id" = c04 ] && checks="C04 C10"
  [ "$id" = d01 ] && checks="C01 C07"
  [ -n "$SWEEP_ONLY" ] && ! echo " $SWEEP_ONLY " | grep -q " $id " && continue
  git -C $wt apply $d/patch.diff || { echo "$id: patch does not apply" >> $out; continue; }
  for c in $checks; do
    start=$(date +%s)
    timeout 5400 python3-vt /verif/check.py $c --tier $tier > /tmp/sweep_${id}_$c.log 2>&1; rc=$?
    n=$(grep -c "^VIOLATION" /tmp/sweep_${id}_$c.log)
    echo "$id check=$c tier=$tier exit=$rc violations=$n seconds=$(( $(date +%s) - start ))" >> $out
  done
  git -C $wt checkout -- .
done
git -C /repo worktree remove --force $wt
rm -rf /tmp/sweep_evidence /tmp/sweep_replays
cat $out
