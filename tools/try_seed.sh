#!/bin/bash
# try_seed.sh <patch> <ID> [tier] : apply a seeded change to /repo, run one check, undo. Prints the verdict lines.
patch=$1; id=$2; tier=${3:-quick}
cd /verif
git -C /repo status --porcelain | grep -q . && { echo "/repo not clean"; exit 2; }
git -C /repo apply $patch || exit 2
start=$(date +%s)
timeout 3000 python3-vt /verif/check.py $id --tier $tier > /tmp/try_$id.log 2>&1
rc=$?
git -C /repo checkout -- .
echo "== $patch $id $tier exit=$rc $(( $(date +%s) - start ))s"
grep -E "^VIOLATION|KNOWN-FINDING|ENCODER-MISMATCH|CONTRACT-CTI|Traceback" /tmp/try_$id.log | cut -c1-300 | head -8
