#!/bin/bash
# run_all.sh [tier] : run every registered check against /repo, one after the other; summary in /tmp/regen/SUMMARY.txt
tier=${1:-quick}
mkdir -p /tmp/regen; : > /tmp/regen/SUMMARY.txt
for id in C14 C17 C16 C19 C13 C08 C18 C15 C04 C12 C03 C05 C10 C09 C01 C11 C02 C07 C20 C06; do
  start=$(date +%s)
  timeout 5400 python3-vt /verif/check.py $id --tier $tier > /tmp/regen/$id.log 2>&1; rc=$?
  echo "$id exit=$rc violations=$(grep -c '^VIOLATION' /tmp/regen/$id.log) seconds=$(( $(date +%s) - start )) $(grep -o 'tier=.*engine errors' /tmp/regen/$id.log | tail -1)" >> /tmp/regen/SUMMARY.txt
done
