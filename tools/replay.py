#!/usr/bin/env python3
"""replay.py <replays/*.json>: re-executes a recorded counterexample natively against /repo's working tree."""
import sys, os, json
VERIF = os.path.dirname(os.path.dirname(os.path.abspath(__file__)))
sys.path.insert(0, os.path.join(VERIF, 'symex'))
import driver

d = json.load(open(sys.argv[1]))
ctx = driver.Ctx(d['property'], 'quick')
try:
    files = dict(d['files'])
    for k, content in (d.get('inline_files') or {}).items():
        p = os.path.join(ctx.out, 'inline_' + os.path.basename(k))
        open(p, 'w').write(content)
        files[k] = p
    rr = ctx.replay(files, d['pkgdir'], driver.MOD + '/' + d['pkgdir'], d['entry'], d['inputs'], params=d.get('params'),
                    testdir=d.get('testdir'))
    print(json.dumps(rr, indent=1)); print(ctx.notes)
    label = d['label']
    bad = rr and (label in rr.get('failed', []) or label in rr.get('regions', []) or (label.startswith('panic:') and rr.get('panic')))
    print('REPRODUCED' if bad else 'not reproduced')
    sys.exit(1 if bad else 0)
finally:
    ctx.cleanup()
