#!/usr/bin/env python3
"""replay.py <replays/*.json>: re-executes a recorded counterexample natively against /repo's working tree."""
import sys, os, json
VERIF = os.path.dirname(os.path.dirname(os.path.abspath(__file__)))
sys.path.insert(0, os.path.join(VERIF, 'symex'))
import driver

d = json.load(open(sys.argv[1]))
ctx = driver.Ctx(d['property'], 'quick')
try:
    rr = ctx.replay(d['files'], d['pkgdir'], driver.MOD + '/' + d['pkgdir'], d['entry'], d['inputs'], params=d.get('params'))
    print(json.dumps(rr, indent=1)); print(ctx.notes)
    bad = rr and (d['label'] in rr.get('failed', []) or (d['label'].startswith('panic:') and rr.get('panic')))
    print('REPRODUCED' if bad else 'not reproduced')
    sys.exit(1 if bad else 0)
finally:
    ctx.cleanup()
