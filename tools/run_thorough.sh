#!/bin/bash
# run_thorough.sh : run every thorough check once against /repo (3 lanes), evidence to a scratch directory; /tmp/thor/SUMMARY.txt
mkdir -p /tmp/thor; : > /tmp/thor/SUMMARY.txt
export VERIF_EVIDENCE_DIR=/tmp/thor/evidence VERIF_REPLAY_DIR=/tmp/thor/replays
lane() {
  for id in "$@"; do
    start=$(date +%s)
    timeout 7200 python3-vt /verif/check.py $id --tier thorough > /tmp/thor/$id.log 2>&1; rc=$?
    echo "$id exit=$rc violations=$(grep -c '^VIOLATION' /tmp/thor/$id.log) seconds=$(( $(date +%s) - start )) $(grep -o 'tier=.*notes' /tmp/thor/$id.log | tail -1)" >> /tmp/thor/SUMMARY.txt
  done
}
lane C14 C17 C16 C19 C13 C08 C18 C15 C04 C12 C03 &
lane C05 C10 C11 C07 C20 &
lane C06 C02 C09 C01 &
wait
