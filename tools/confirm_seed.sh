#!/bin/bash
# confirm_seed.sh <id> <pkgdir> <run-regex> : confirm a seeded change left by a sub-agent in /tmp/wt/<id>
# (seeded.patch applied in the worktree + a demonstration test): (1) builds, (2) demo fails with the change,
# (3) demo passes without it, (4) the existing suite passes with it (demo skipped). Log: /tmp/wt/<id>.confirm.log
set -u
id=$1; pkg=$2; rx=$3
wt=/tmp/wt/$id
export GOFLAGS=-mod=mod GOPROXY=off GOSUMDB=off GOTOOLCHAIN=local
log=/tmp/wt/$id.confirm.log
: > $log
cd $wt || exit 2
git apply -R --check seeded.patch 2>/dev/null || git apply seeded.patch   # make sure applied
{ echo "== build"; go build ./... && echo BUILD-OK; } >> $log 2>&1
{ echo "== demo with change"; go test -vet=off -count=1 -run "$rx" $pkg 2>&1 | tail -30; echo "DEMO-WITH exit=${PIPESTATUS[0]}"; } >> $log 2>&1
git apply -R seeded.patch
{ echo "== demo without change"; go test -vet=off -count=1 -run "$rx" $pkg 2>&1 | tail -5; echo "DEMO-WITHOUT exit=${PIPESTATUS[0]}"; } >> $log 2>&1
git apply seeded.patch
# the suite; pkg/store/v2/proposal TestProposalStore is known to hang / fail rarely under load (also on the unchanged tree):
# when it is the only failure the package is re-run alone
{ echo "== suite with change"; go test -vet=off -count=1 -timeout 6m -skip "$rx" ./... > $log.suite 2>&1; rc=$?
  grep -v "no test files" $log.suite | grep -E "^(ok|FAIL|---|panic:)" | tail -40
  if [ $rc -ne 0 ] && [ "$(grep -E '^FAIL\s' $log.suite | awk '{print $2}' | sort -u)" = "github.com/onosproject/onos-config/pkg/store/v2/proposal" ]; then
    for i in 1 2 3; do go test -vet=off -count=1 -timeout 2m ./pkg/store/v2/proposal/ > $log.suite2 2>&1 && { rc=0; echo "(pkg/store/v2/proposal flaked in the full run; re-run alone: ok)"; break; }; done
  fi
  rm -f $log.suite $log.suite2; echo "SUITE exit=$rc"; } >> $log 2>&1
grep -E "BUILD-OK|DEMO-WITH|DEMO-WITHOUT|SUITE exit" $log
