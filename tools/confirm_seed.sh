#!/bin/bash
# confirm_seed.sh <id> <pkgdir> <run-regex> : confirm a seeded change left by a sub-agent in /tmp/wt/<id>
# (seeded.patch applied in the worktree + a demonstration test): (1) builds, (2) demo fails with the change,
# (3) demo passes without it, (4) the existing suite passes with it (demo skipped). Log: /tmp/wt/<id>.confirm.log
set -u
id=$1; pkg=$2; rx=$3
wt=/tmp/wt/$id
export GOFLAGS=-mod=mod GOPROXY=off GOSUMDB=off GOTOOLCHAIN=local
log=/tmp/wt/$id.confirm.log
: > $log
cd $wt || exit 2
git apply -R --check seeded.patch 2>/dev/null || git apply seeded.patch   # make sure applied
{ echo "== build"; go build ./... && echo BUILD-OK; } >> $log 2>&1
{ echo "== demo with change"; go test -vet=off -count=1 -run "$rx" $pkg 2>&1 | tail -30; echo "DEMO-WITH exit=${PIPESTATUS[0]}"; } >> $log 2>&1
git apply -R seeded.patch
{ echo "== demo without change"; go test -vet=off -count=1 -run "$rx" $pkg 2>&1 | tail -5; echo "DEMO-WITHOUT exit=${PIPESTATUS[0]}"; } >> $log 2>&1
git apply seeded.patch
{ echo "== suite with change"; go test -vet=off -count=1 -timeout 25m -skip "$rx" ./... 2>&1 | grep -v "no test files" | tail -40; echo "SUITE exit=${PIPESTATUS[0]}"; } >> $log 2>&1
grep -E "BUILD-OK|DEMO-WITH|DEMO-WITHOUT|SUITE exit" $log
