#!/bin/bash
# keep_seed.sh <id> <PROP> <pkgdir> <run-regex> <needs...> : store a confirmed seeded change of /tmp/wt/<id> under /verif/seeded/<id>
# (patch.diff, demonstration test, NOTES.md, meta.json from the confirm log) and remove the scratch worktree.
set -u
id=$1; prop=$2; pkg=$3; rx=$4; shift 4; needs="$*"
wt=/tmp/wt/$id; dst=/verif/seeded/$id
grep -q "BUILD-OK" $wt.confirm.log && grep -q "DEMO-WITH exit=1" $wt.confirm.log && grep -q "DEMO-WITHOUT exit=0" $wt.confirm.log && grep -q "SUITE exit=0" $wt.confirm.log || { echo "$id: not confirmed"; exit 2; }
mkdir -p $dst
cp $wt/seeded.patch $dst/patch.diff
cp $wt/NOTES.md $dst/NOTES.md 2>/dev/null
demo=$(cd $wt && git status --porcelain | grep '^??' | awk '{print $2}' | grep '_test.go$' | head -1)
cp $wt/$demo $dst/
python3 - "$id" "$prop" "$pkg" "$rx" "$needs" "$demo" <<'PY'
import sys, json
id, prop, pkg, rx, needs, demo = sys.argv[1:7]
res = [l.strip() for l in open('/tmp/wt/%s.confirm.log' % id) if l.startswith(('BUILD-OK', 'DEMO-WITH', 'DEMO-WITHOUT', 'SUITE exit'))]
json.dump({'property': prop, 'patch': 'patch.diff', 'demonstration': demo.rsplit('/', 1)[-1], 'demonstration_location': demo,
           'needs_to_manifest': needs,
           'confirmed_in_scratch_worktree': {'commands': ['go build ./...',
               "go test -vet=off -count=1 -run '%s' %s  (with the change: must fail; without: must pass)" % (rx, pkg),
               "go test -vet=off -count=1 -timeout 25m -skip '%s' ./...  (existing suite with the change)" % rx], 'result': res},
           'checks': {}}, open('/verif/seeded/%s/meta.json' % id, 'w'), indent=1)
PY
git -C /repo worktree remove --force $wt
rm -f $wt.confirm.log $wt.confirm.out
ls $dst
