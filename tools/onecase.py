#!/usr/bin/env python3
"""onecase.py <prog.json> <entry> [--forks '{"a":1}'] [--params '{}'] [--unwind N] : run one symbolic case (debugging aid)"""
import sys, os, json, argparse, time
VERIF = os.path.dirname(os.path.dirname(os.path.abspath(__file__)))
sys.path.insert(0, os.path.join(VERIF, 'symex'))
import driver
ap = argparse.ArgumentParser()
ap.add_argument('prog'); ap.add_argument('entry')
ap.add_argument('--forks', default='{}'); ap.add_argument('--params', default='{}'); ap.add_argument('--unwind', type=int, default=16)
ap.add_argument('--timeout', type=int, default=60000)
ap.add_argument('--opts', default='{}')
ap.add_argument('--first', action='store_true', help='take the first value of every fork instead of the last')
a = ap.parse_args()
forks = json.loads(a.forks)
opts = json.loads(a.opts); opts['params'] = json.loads(a.params)
while True:
    r = driver.run_case({'prog': a.prog, 'entry': a.entry, 'unwind': a.unwind, 'forks': forks, 'timeout_ms': a.timeout, 'opts': opts})
    if r.get('needfork'):
        forks[r['needfork'][0]] = 0 if a.first else r['needfork'][1] - 1
        continue
    break
if r.get('error'):
    print(r['error']); print(r.get('trace'))
print('forks', forks)
print('symex_s', r.get('symex_s'), 'total_s', r.get('total_s'), {k: v for k, v in (r.get('stats') or {}).items() if k not in ('funcs', 'stubs')})
for c in r['covers']:
    print('cover', c['label'], c['result'], c['s'], c.get('model'))
for o in r['obligations']:
    if o.get('trivial'): continue
    print('ob', o['label'], o['result'], o.get('s'), o.get('model') if o['result'] == 'sat' else '')
