#!/usr/bin/env python3
"""store_seed.py <id> <PROP> <demo-file-relative-to-worktree> <run-regex> <pkg> <needs> : copy a confirmed seeded change from /tmp/wt/<id> to /verif/seeded/<id>/"""
import sys, os, json, shutil
sid, prop, demo, rx, pkg, needs = sys.argv[1:7]
wt = '/tmp/wt/' + sid
dst = '/verif/seeded/' + sid
os.makedirs(dst, exist_ok=True)
shutil.copy(os.path.join(wt, 'seeded.patch'), os.path.join(dst, 'patch.diff'))
shutil.copy(os.path.join(wt, demo), os.path.join(dst, os.path.basename(demo)))
log = open('/tmp/wt/%s.confirm.log' % sid).read()
marks = [l for l in log.splitlines() if l.startswith(('BUILD-OK', 'DEMO-WITH', 'DEMO-WITHOUT', 'SUITE exit'))]
meta = {'property': prop, 'patch': 'patch.diff', 'demonstration': os.path.basename(demo), 'demonstration_location': demo,
        'needs_to_manifest': needs,
        'confirmed_in_scratch_worktree': {
            'commands': ['go build ./...', "go test -vet=off -count=1 -run '%s' %s  (with the change: must fail; without: must pass)" % (rx, pkg),
                         "go test -vet=off -count=1 -timeout 25m -skip '%s' ./...  (existing suite with the change)" % rx],
            'result': marks},
        'checks': {}}
mp = os.path.join(dst, 'meta.json')
if os.path.exists(mp):
    meta['checks'] = json.load(open(mp)).get('checks', {})
json.dump(meta, open(mp, 'w'), indent=1)
print(dst, marks)
