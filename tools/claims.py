# claims table read by mkmanifest.py
claim('C14',
      'Bounded symbolic execution (go/ssa -> SMT) of the real TemporaryEvaluate against a byte-wise exact-membership oracle: for every '
      'groups string and every ADMINGROUPS string up to the stated length over an alphabet containing both separators, z3 proves '
      '"allowed iff some non-empty caller group equals some configured admin group"; SAT models are replayed natively.',
      'Bounds: string lengths and alphabet (see evidence.bounds); metadata access through the real metautils.NiceMD; os.Getenv is a '
      'harness-provided value; trusted: go/ssa, the executor, z3.',
      'SSA symbolic execution + SMT (z3), bounded strings', 'DESIGN.md 6/C14')
