# claims table read by mkmanifest.py
claim('C14',
      'Bounded symbolic execution (go/ssa -> SMT) of the real TemporaryEvaluate against a byte-wise exact-membership oracle: for every '
      'groups string and every ADMINGROUPS string up to the stated length over an alphabet containing both separators, z3 proves '
      '"allowed iff some non-empty caller group equals some configured admin group"; SAT models are replayed natively.',
      'Bounds: string lengths and alphabet (see evidence.bounds); metadata access through the real metautils.NiceMD; os.Getenv is a '
      'harness-provided value; trusted: go/ssa, the executor, z3.',
      'SSA symbolic execution + SMT (z3), bounded strings', 'DESIGN.md 6/C14')

claim('C16',
      'Bounded symbolic execution of the real StrPath/StrPathElem/writeSafeString/SplitPath/nextTokenIndex/ParseGNMIElements/'
      'parseElement/parseKey/findUnescaped, GetParentPath, PathValuesToGnmiChange, newUpdateResult and createUpdate: for every path '
      'shape inside the bounds (element/key counts and lengths case-split, all byte contents symbolic over identifier bytes plus every '
      'escape-worthy byte) z3 proves parse(split(render(p))) == p (hence injectivity of the rendering inside the bound), the parent '
      'law, and that the southbound SetRequest, the SetResponse and a PROTO Get update carry exactly p. Panic sites of the encoded '
      'code are side obligations. SAT models are replayed natively before being reported.',
      'Bounds in evidence.bounds (elements, keys per element, name/value lengths, alphabets); runes decoded as bytes (<0x80); '
      'sort.Strings modelled for the bounded key count; trusted: go/ssa, executor, z3.',
      'SSA symbolic execution + SMT (z3), case-split shapes, symbolic bytes', 'DESIGN.md 6/C16')
