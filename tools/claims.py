# claims table read by mkmanifest.py
claim('C14',
      'Bounded symbolic execution (go/ssa -> SMT) of the real TemporaryEvaluate against a byte-wise exact-membership oracle: for every '
      'groups string and every ADMINGROUPS string up to the stated length over an alphabet containing both separators, z3 proves '
      '"allowed iff some non-empty caller group equals some configured admin group"; SAT models are replayed natively. At the handlers: the REAL '
      'Server.Set with the identity claims in the request context (every subset of name / preferred_username / email / groups; symbolic groups and '
      'ADMINGROUPS): served iff no claim is present or the caller is an exact member, a refused Set creates no transaction; the REAL Server.Get '
      'listing all targets (target "*" on the prefix or on a path) with / without authorization (OIDC_SERVER_URL), symbolic groups: an '
      'identified caller is shown exactly the targets its groups name, every target if it holds the ROC-admin group.',
      'Bounds: string lengths and alphabet (see evidence.bounds); metadata access through the real metautils.NiceMD; os.Getenv is a '
      'harness-provided value; trusted: go/ssa, the executor, z3.',
      'SSA symbolic execution + SMT (z3), bounded strings', 'DESIGN.md 6/C14')

claim('C16',
      'Bounded symbolic execution of the real StrPath/StrPathElem/writeSafeString/SplitPath/nextTokenIndex/ParseGNMIElements/'
      'parseElement/parseKey/findUnescaped, GetParentPath, PathValuesToGnmiChange, newUpdateResult and createUpdate: for every path '
      'shape inside the bounds (element/key counts and lengths case-split, all byte contents symbolic over identifier bytes plus every '
      'escape-worthy byte) z3 proves parse(split(render(p))) == p (hence injectivity of the rendering inside the bound), the parent '
      'law, and that the southbound SetRequest, the SetResponse and a PROTO Get update carry exactly p. Panic sites of the encoded '
      'code are side obligations. SAT models are replayed natively before being reported.',
      'Bounds in evidence.bounds (elements, keys per element, name/value lengths, alphabets); runes decoded as bytes (<0x80); '
      'sort.Strings modelled for the bounded key count; trusted: go/ssa, executor, z3.',
      'SSA symbolic execution + SMT (z3), case-split shapes, symbolic bytes', 'DESIGN.md 6/C16')

PROTO_NOTE = ('Harness: flat stores implementing the pkg/store/v2 contracts, each scheduler step = one real Reconcile(id) run to completion '
              '(interleaving at Reconcile granularity; version conflicts cannot occur), device/plugin/topo models of /verif/harness/v2; '
              'bounds: targets x transactions and BMC depth in evidence.bounds; a contract that fails only from unreachable states (no '
              'schedule within the bound reaches the failing step) is reported as inconclusive, never as a violation; every SAT model is '
              'replayed natively (same Step function compiled by go) before a VIOLATION line is printed. Trusted: go/ssa, executor, z3.')
claim('C01',
      'The transition relation T of the real v2 transaction+proposal reconcilers is extracted by symbolic execution (two targets); z3 decides '
      '(a) step contracts from ANY state: a transaction becomes VALIDATED only if every proposal is VALIDATED, Commit opens only after that, '
      'values change only in a proposal\'s commit phase, abort never touches values; (b) BMC from the initial state over all schedules, '
      'target subsets and plugin verdicts: no reachable state has a committed transaction with an unaltered named target, nor a rejected / '
      'failed-before-commit transaction with an altered target.',
      PROTO_NOTE, 'SSA symbolic execution -> transition relation; SMT step contracts + bounded model checking (z3)', 'DESIGN.md 4, 6/C01')
claim('C02',
      'Same extracted transition relation (1 target x 2 transactions; thorough deeper): contracts "a merge needs Committed.Index == PrevIndex, '
      'stamps its own index, happens only in a proposal step", index fields never decrease in a step; BMC of ghost order monitors updated by '
      'the harness stores/device: merges in increasing index, no Set sent before its merge or before every earlier proposal finished applying, '
      'Committed.Index never decreases, Applied <= Committed; with device faults: a proposal reported APPLIED has had its change accepted by the '
      'device (ghost). Waypoint chains (first transaction committed-not-applied, second failed / committed: one solver-chosen reachable state per '
      'class, then every continuation of 14 steps) reach histories of ~46 steps.',
      PROTO_NOTE, 'SSA symbolic execution -> transition relation; SMT step contracts + bounded model checking with waypoints (z3)', 'DESIGN.md 4, 6/C02')
claim('C05',
      '(a) ModelPluginInfo.Validate chunking decided for EVERY document length 0..3*chunkSize+2 (contents unmaterialised, pure 64-bit offset '
      'arithmetic): chunks contiguous from 0, non-empty, <= chunkSize, cover the document, stream closed once, verdict propagated. '
      '(c) on the extracted v2 transition relation: a proposal becomes VALIDATED only with the plugin\'s acceptance in that step on top of the '
      'predecessor\'s commit and leaves the configuration untouched; a proposal\'s commit opens only in its transaction\'s commit phase; BMC: '
      'a rejected change never becomes readable; the plugin refuses with any kind of error ModelPluginInfo.Validate can return (typed Invalid, '
      'other typed error, raw gRPC status: symbolic per step). (b) data path: histories of 2 (thorough 3) Sets over the C03 universe (the last one '
      'possibly {delete /a, update /a/b/c}) and the rollback of the last change go through the REAL proposal Initialize / Validate / Commit / Apply '
      'over the real configuration store, also with every change validated and committed before any is applied: the document handed to the '
      'plugin (value given to the JSON encoder by the real BuildTree) holds exactly the leaves and values that the reference gNMI state machine '
      'holds after the change / after the rollback (= what C03 shows Get returns).',
      PROTO_NOTE, 'SSA symbolic execution + SMT (z3): arithmetic harness, step contracts, BMC', 'DESIGN.md 6/C05')
claim('C06',
      '(a) data path: histories of 1..2 (thorough 3) Sets over the C03 universe (the last one possibly a request that deletes /a and writes '
      '/a/b/c) go through the REAL proposal Initialize/Validate (rollback-value capture)/Commit/Apply phases, the real configuration store and a '
      'device model; then the last change is rolled back by a real rollback proposal: Get (real handler) and the device show exactly the state '
      'before that change (values and whole subtrees), and the same rollback requested again is refused and alters nothing; both map iteration '
      'orders. (b) protocol: rollback requests for any index (missing, naming a rollback, an older change, the latest change) appended anywhere: BMC on the extracted '
      'relation with the real tree/southbound conversion code (no content cuts): a committed rollback always names the most recent committed '
      'change of its targets; after it the rolled-back leaf is neither readable nor on the connected device; waypoint-seeded queries extend '
      'the depth past the first applied change.',
      PROTO_NOTE + ' In (b) every transaction writes its own leaf; subtree restores are decided by (a). Multi-target rollbacks: protocol side only.',
      'SSA symbolic execution -> transition relation; bounded model checking with waypoints (z3)', 'DESIGN.md 6/C06')
claim('C07',
      'Process stops are a symbolic per-step parameter (after the j-th store/device call of the step every further call fails), budget 1 (quick) / '
      '2 (thorough) per history: BMC with a fixed-point probe decides that at quiescence every change transaction has its crash-free outcome '
      '(APPLIED iff accepted by every target\'s model, else FAILED+ABORTED), nothing is merged twice/out of order, nothing sent before merge.',
      PROTO_NOTE, 'SSA symbolic execution -> transition relation; bounded model checking with crash parameter (z3)', 'DESIGN.md 6/C07')
claim('C08',
      'The real Server.Set handler and the real admin RollbackTransaction handler are executed symbolically against a stub store whose Watch delivers a symbolic suffix of the transaction\'s '
      'life (first event = any lifecycle point, later events monotone with stuttering/skips, last = finished), sync/async from the real '
      'extension parsing, any failure class: z3 proves success => awaited stage or later, error => FAILED with the mapped gRPC code, response '
      'lists exactly the changed (target, path, op) pairs and the stored id/index, and that no event sequence leaves the handler waiting '
      '(sequential channel model: a receive that can never be satisfied is an obligation).',
      'Store Watch contract (current state replayed, later updates in order) assumed: the goroutine implementation of Watch is outside; '
      'bounds: 1..3 (thorough 4) delivered events; fixed well-formed request. Trusted: go/ssa, executor (sequential goroutine model), z3.',
      'SSA symbolic execution with sequential channel model + SMT (z3)', 'DESIGN.md 6/C08')
claim('C09',
      'BMC deadlock-freedom on the extracted relation: for every schedule of <= depth steps, the reached state is not a fixed point of every '
      'Reconcile(id) (one probe copy of T per id, fault-free) while some accepted transaction with all targets connected is not final; contract: an '
      'aborted proposal leaves both target indexes past itself. Waypoint chains continue 14 steps from one reachable state per class of the '
      'first two (thorough: three) transactions. Work sets (DESIGN.md A.8): in a second configuration (device refusals on) the state carries the '
      'controllers\' pending reconcile requests - a reconcile runs only while its request is pending; requests come from store events (mapped to ids '
      'as pkg/controller/v2/*/watcher.go does), from Result.Requeue of the real Reconcile, from an error return (retry) and from the environment - '
      'and BMC decides that no reachable state has every queue empty while re-examining a record changes the state (first sentence) or while, with '
      'every target connected, a transaction is not final (second sentence). The event->id mapping restated in the harness is checked against the REAL store watchers of the four controllers '
      '(Watcher.Start goroutines run as coroutines over stub stores: every event is mapped, to exactly those ids; topology watchers outside); a device answering PermissionDenied with no later master is outside. Timers per the controller library contract.',
      PROTO_NOTE, 'SSA symbolic execution -> transition relation; bounded model checking with fixed-point probes (z3)', 'DESIGN.md 6/C09')
claim('C10',
      'Real mastership + configuration + proposal reconcilers with connection loss, device restart and re-connection under a new connection id '
      'anywhere in the history: contracts (term never decreases, new master => term+1 and master is the live connection, term changes only with the '
      'master, applied term advances only by the re-push in SYNCHRONIZING) + BMC of ghost monitors evaluated at the device: every accepted Set carries '
      'the stored term as election id, no change is sent in a term before its re-push completed.',
      PROTO_NOTE + ' One connection per target at a time (competing simultaneous connections outside).', 'SSA symbolic execution -> transition relation; SMT step contracts + BMC (z3)', 'DESIGN.md 6/C10')
claim('C11',
      'The device answers any of the 17 gRPC codes (symbolic per step) through the typed-error conversion of the southbound client: contracts decide '
      'Unavailable/Canceled/DeadlineExceeded/PermissionDenied leave the whole state unchanged (change stays pending) and every other code fails the '
      'proposal with the Failure type of that code, advances Applied.Index, leaves applied values and device untouched; BMC: after refusals no '
      'transaction is stranded and sends stay in order.',
      PROTO_NOTE, 'SSA symbolic execution -> transition relation; SMT step contracts + BMC (z3)', 'DESIGN.md 6/C11')
claim('C12',
      'Panic-site obligations of the real handlers: every nil dereference, index/slice bound, integer division, type assertion, nil-map write, '
      'regexp.MustCompile, big.NewFloat(NaN) '
      'reached by symbolic execution of Server.Set, Server.Subscribe and Server.Get (prefix absent / target only / with an element, 0..2 paths of 0..2 '
      'elements from a pool of ordinary names, gNMI wildcards and regular-expression metacharacters, keys, every encoding and data type, '
      'extensions, empty and populated configuration) over shape-generic requests (optional/nil fields, 0..n elements, symbolic short names over an '
      'alphabet with every byte the handlers treat specially, keys, extensions incl. override entries without a value) is an obligation decided by '
      'z3; a third Set mode names nodes of the model (leaf, key leaf, list entry, container) with every alternative of the value oneof (strings, bool, '
      'bytes, JSON, symbolic int / uint, decimals with symbolic digits and concrete precisions 0,1,18,19,64,65, floats as concrete cases finite / '
      '+-Inf / NaN, leaf-lists) so that value conversion, key check and change construction are reached; SAT = concrete request, replayed '
      'natively under recover().',
      'Also the admin LeafSelectionQuery handler (known/unknown target, change context absent / empty / with an update, replace or delete whose path and '
      'value may be absent, empty and populated configuration). Bounds: name/value lengths, pools and element counts in evidence.bounds; Capabilities and the '
      'other admin handlers (streams) are not covered; the '
      'SYNCHRONOUS Get strategy (goroutines waiting for device sync) is outside. std-lib / protobuf / regexp-matching internals outside. '
      'Trusted: go/ssa, executor, z3, gohelper (Go regexp compile).',
      'SSA symbolic execution, panic-site obligations + SMT (z3)', 'DESIGN.md 6/C12')
claim('C18',
      'Real tree.PrunePathValues/PrunePathMap (v2 and v3) over a 12-node universe (containers, sibling leaves sharing a textual prefix, '
      'single-key list with keys 1/10 and an explicit key leaf, two-key list) with SYMBOLIC presence and tombstone bits: z3 proves the output '
      'is exactly the live paths (+ top-most tombstones), liveness computed from parsed elements. Real BuildTree/addPathToTree/'
      'handleLeafValue: one case per presence shape (case split), leaf values symbolic: the value handed to the JSON encoder contains a '
      'leaf iff it is live with its value, one list entry per live key set, two-key entries neither merged nor split.',
      'encoding/json not executed (tree observed before marshalling; natively replayed through real json); reflect.ValueOf(..).Kind/Int/'
      'Uint/Bool/String modelled on the dynamic type; sort.Slice = compare-exchange network with the real less closure; universe bound '
      '(<= 5 paths per case). Trusted: go/ssa, executor, z3.',
      'SSA symbolic execution + SMT (z3) over a symbolic presence universe; case-split shapes for the tree', 'DESIGN.md 6/C18')
claim('C03',
      'Histories of Sets (one operation each: update of a leaf, delete of a leaf / container / list entry over an 8-node universe with sibling names sharing '
      'textual prefixes and list keys 1/10; optionally followed by an unrelated Set or by ONE request that deletes /a and writes /a/b/c) run through the REAL '
      'Set handler, the real proposal Initialize (status write) and Commit phases (AddDeleteChildren, applyChangeToConfig), the REAL configurationStore '
      '(getTarget/populate/store/PrunePathMap) whose path-value primitives are resolved BY NAME as the atomix SDK does, with the map ranges of the code '
      'under test running in both orders, and are read back by the REAL Get handler (wildcard regexp '
      'evaluated by Go\'s regexp via native call-out) with every query of a 7-query universe; compared after the history with a reference gNMI '
      'state machine on parsed elements: Get returns exactly the live leaves addressed at element boundaries with the last written value. '
      'Operation shapes are case-split (paths concrete), written values symbolic.',
      'History length 2 (quick) / 3 (thorough) + the trailing Set; atomix map contract stubbed (Get/List/transactional Insert/Update/Remove with '
      'IfVersion); transaction initialisation (index stamping) emulated by the harness; PROTO Get only. Trusted: go/ssa, executor, z3, gohelper (Go regexp).',
      'SSA symbolic execution + SMT (z3), case-split operation histories vs reference model', 'DESIGN.md 6/C03')
claim('C13',
      'The real Server.Set (getTargetInfo, doUpdateOrReplace, doDelete, computeChange, extensions, FindPathFromModel, CheckKeyValue, IsPathValid) '
      'against a reference resolver written on parsed elements: 0..2 operations over a pool of 8 paths (model leaves, non-model path, textual prefix '
      'of a model path, list leaf, key leaf with symbolic value, container, list entry) x update/delete x symbolic per-path and prefix targets '
      '(none, t1, known-without-plugin, unknown) x the first path element in the operation or in the request prefix x symbolic size limit x malformed '
      'extensions: refused => error and no Create; accepted => exactly '
      'one Create whose change names exactly the effective target and, per operation, the named path, kind and value.',
      'Pool and operation count bounds as stated; JSON-valued updates outside (plugin GetPathValues). Trusted: go/ssa, executor, z3.',
      'SSA symbolic execution + SMT (z3), case-split request shapes vs reference resolver', 'DESIGN.md 6/C13')
claim('C19',
      'The real Subscribe / processSubscribeRequest / splitSubscribeRequest / copyPrefix / sendSubscriptionRequest (with the real '
      'client.NewQuery) / sendPollRequest and the ProtoHandler closure are executed symbolically on scripted streams of 1..3 messages '
      '(subscribe / poll / neither; case split) with 0..2 subscription entries whose per-path and prefix targets and all list-level options are '
      'symbolic; fake per-target clients record the query and emit a response through the query\'s handler. Oracle on the script: each '
      'target is contacted iff named, gets pointer-identical exactly its own entries in order (or the unmodified request in prefix mode), '
      'copied list options and prefix, polls reach exactly the subscribed targets, responses are relayed as received and nothing else is '
      'sent, second subscribe / early poll / no target / unknown message is refused.',
      'Bounds: <= 3 messages, <= 2 entries, two known targets; sequential execution of the stream loop; openconfig path.ToStrings cut. '
      'Trusted: go/ssa, executor, z3.',
      'SSA symbolic execution + SMT (z3), case-split message scripts vs oracle', 'DESIGN.md 6/C19')
claim('C17',
      'Real GnmiTypedValueToNativeType / NativeTypeToGnmiTypedValue / PathValuesToGnmiChange (v2) with the real onos-api typed-value '
      'constructors and accessors: for FULLY SYMBOLIC int64, uint64 and decimal64 digits (precision <= 18), every model width option (absent, '
      '8, 16, 32, 64), bool, and strings / ascii / bytes up to 3 symbolic bytes (incl. 0x00, 0xff, quote) z3 proves the value returned by a '
      'PROTO Get and the value placed in the southbound update equal the value set; the JSON leaf built by the real tree code is a string exactly '
      'for 64-bit integers under RFC 7951 and its text is the decimal text of the value (decimal texts are kept abstract as sign + 64-bit '
      'magnitude: two texts are equal iff these are equal); uint leaf-lists of two fully symbolic elements of every width (the variable-length '
      'big.Int encodings are case-split on their byte lengths): elements unchanged in PROTO Get / southbound update, JSON elements are strings '
      'with the UNSIGNED decimal text exactly for width 64 under RFC 7951.',
      'math/big.Int is a contract model (sign, 64-bit magnitude; SetBytes/Bytes/Neg/Sign/Int64/Uint64/SetInt64/SetUint64/NewInt) valid for '
      'magnitudes < 2^64; float/double (big.Float gob encoding) and the DIGITS of decimal texts (strconv/fmt; only sign and magnitude are '
      'modelled) are outside; leaf-lists: uint with 2 elements only (int/bool/decimal/bytes leaf-lists not covered). Trusted: go/ssa, executor, z3.',
      'SSA symbolic execution + SMT (z3) over 64-bit bit-vectors', 'DESIGN.md 6/C17')
claim('C04',
      'Histories of Sets (same 7-node universe and case-split operations as C03, written values symbolic) are committed AND applied through the '
      'REAL proposal reconcileCommit/reconcileApply (AddDeleteChildren, PrunePathValues, PathValuesToGnmiChange), the REAL configuration store over '
      'stub atomix maps and a gNMI device model (deletes at element boundaries, then updates); then the device restarts empty, a new mastership '
      'term begins and the REAL configuration controller re-pushes: z3 proves the device holds exactly the stored live leaves with their values '
      'both after the applies and after the re-push; the last applied Set may be one request that deletes /a and writes /a/b/c; an optional further Set '
      'that the device REFUSES (committed, apply FAILED) never reaches the device, not even through the re-push. On the extracted v2 transition relation (device unavailable / refusing at will): no proposal is reported '
      'APPLIED unless its change reached the device - BMC from the initial state and from a waypoint with the first transaction committed and '
      'unapplied and the second rejected behind it (the target connected later). Re-push before any new change in a term and election ids are C10\'s.',
      'History 1..2 (quick) / 3 (thorough) + the refused Set; device reachable during the history (offline / later connection is covered by '
      'the C02/C10 transition-system checks); atomix map contract stubbed. Trusted: go/ssa, executor, z3.',
      'SSA symbolic execution + SMT (z3), case-split operation histories vs reference model', 'DESIGN.md 6/C04')
claim('C15',
      'First sentence for the v2 stores: the REAL Create/Update/UpdateStatus/Get/GetByIndex of the transaction, proposal and '
      'configuration stores are executed symbolically over stub atomix IndexedMap/Map primitives implementing the documented contract, from an '
      'arbitrary stored version/index: every update carries IfVersion(version read from the object) (an unconditional update is flagged by the '
      'stub), of two writers of the same version the first succeeds with a larger version and the second gets a Conflict and leaves no trace, '
      'versions keep growing, created log entries get fresh increasing indexes, duplicate creates are refused.',
      'Also the v3 configuration store (Update / UpdateStatus, two writers of one version). Second sentence, sequentialised slice (v2 transaction, '
      'proposal and configuration stores): the REAL open() event pump and the REAL Watch() goroutines are executed as coroutines (a goroutine '
      'runs to its next blocking channel operation; an unbuffered send completes when its item was received; select takes the first / the last '
      'ready case; watcher maps are walked forwards / backwards) over stub primitives whose Events() streams block like the real ones. Decided per '
      'concrete case (watch all / one record, with / without replay, a record written later; cancellation before / while the next event is in '
      'flight) for every stored version / index / content: replay shows the stored record, every later create / update is shown once with its '
      'version and index, a watcher of one record sees only that record, cancelling closes the channel, unregisters only that watcher and leaves '
      'the store, another watcher of all records and another watcher of the same record served for the following events. NOT claimed: preemptive '
      'interleavings other than these cooperative schedules (no symbolic scheduler: schedules are concrete cases, the solver decides the data), '
      'watchers that stop receiving, the v3 stores\' watchers, the v3 transaction store. atomix primitive contract assumed. Trusted: go/ssa, executor, z3.',
      'SSA symbolic execution + SMT (z3) over stub primitives', 'DESIGN.md 6/C15, 7')
claim('C20',
      'The transition relation of the REAL v3 transaction Reconciler (Reconcile -> reconcileChange/reconcileRollback -> commitChange, applyChange, '
      'commitRollback, applyRollback, applyValues, addDeleteChildren) is extracted from SSA over flat v3 transaction/configuration stores '
      '(harness/v3) with the environment actions of spec/Transaction.tla (AppendChange, RollbackChange(i)), target connect/restart and a crash '
      'parameter that stops the process after the k-th write of a step (partial writes between the two records). Bounded model checking '
      'decides, for every schedule up to the depth: the Consistency clauses of spec/Config.tla (committed / applied / device values of the '
      'latest committed / applied revision), the Order monitors (change commits and applies complete in log order, apply only after commit, '
      'nothing applied past a failed apply until it is rolled back), the record-shape ranges, and Termination as the absence of a reachable '
      'dead end (a fixed point of all reconcile steps with an unfinished transaction, target connected, no rollback request enabled); '
      'witnesses (applied, failed validation, one and ALL transactions rolled back) guard against vacuity; every SAT answer is replayed '
      'natively against the real Reconciler.',
      'Bounds: one target, 2 transactions (3 in the thorough tier), depth 16 (quick) / 24 (thorough), one crash per run; rollback order among '
      'Complete events is checked through the cursor/consistency predicates, not as a separate history monitor; the v3 configuration and '
      'mastership controllers are outside (configuration taken as SYNCHRONIZED in term 1 while connected); BuildTree cut. '
      'Trusted: go/ssa, executor, z3, harness stores.',
      'SSA symbolic execution -> transition relation, SMT bounded model checking (z3)', 'DESIGN.md 6/C20')
