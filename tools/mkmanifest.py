#!/usr/bin/env python3
"""Regenerates /verif/MANIFEST.json from the table below (kept in one place so it stays valid)."""
import json, os
VERIF = os.path.dirname(os.path.dirname(os.path.abspath(__file__)))

# id -> (category, text, note, technique, design_ref); a property absent here goes to not_applicable with PENDING[id]
CHECKS = {}
NA = {}


def claim(pid, text, note, technique, ref, category='model_checking'):
    CHECKS[pid] = dict(category=category, text=text, note=note, technique=technique, ref=ref)


exec(open(os.path.join(VERIF, 'tools', 'claims.py')).read())

props = [json.loads(l)['id'] for l in open(os.path.join(VERIF, 'properties.jsonl'))]
checks = []
for pid in props:
    if pid not in CHECKS:
        continue
    c = CHECKS[pid]
    checks.append({
        'property_id': pid,
        'quick_cmd': 'python3-vt /verif/check.py %s --tier quick' % pid,
        'thorough_cmd': 'python3-vt /verif/check.py %s --tier thorough' % pid,
        'evidence_file': '/verif/evidence/%s.json' % pid,
        'replay_cmd_template': 'python3-vt /verif/tools/replay.py {path}',
        'engine': 'gosmt',
        'level_claimed': {'category': c['category'], 'text': c['text'], 'design_ref': c['ref']},
        'level_note': c['note'],
        'technique': c['technique'],
    })
na = [{'property_id': pid, 'reason': NA.get(pid, 'no check registered yet (see DESIGN.md section 6 for the plan)')}
      for pid in props if pid not in CHECKS]
man = {
    'version': 1,
    'setup_cmd': 'bash /verif/setup.sh',
    'hooks': {
        'guard': 'verif',
        'enable': 'no source hooks in /repo: harnesses and verif-tagged constructors live under /verif/harness and are injected '
                  'with go/packages Overlay (symbolic run) and `go test -tags verif -overlay` (native replay)',
        'baseline_off_cmd': "cd /repo && for m in . ./test; do (cd $m && GOFLAGS=-mod=mod GOPROXY=off GOSUMDB=off go test -vet=off -count=1 -timeout 25m ./...); done",
        'source_commits': [],
        'add_only': True,
    },
    'engines': [{
        'name': 'gosmt', 'path': '/verif/symex/gosmt.py',
        'serves_properties': sorted(CHECKS),
        'kind_free_text': 'go/ssa (x/tools v0.29.0) -> JSON exporter (engine/ssaexport) + merging symbolic executor in Python over '
                          'z3 (bit-vectors, arrays); obligations decided by z3 5.1.0 (z3py), SAT models replayed natively with go test -overlay',
    }],
    'checks': checks,
    'not_applicable': na,
    'notes': 'Solver-based checking of the real code: every check regenerates the SSA of /repo\'s working tree, executes the anchored '
             'functions symbolically and decides each obligation with z3 inside stated bounds (evidence lists functions encoded, '
             'bounds, queries, solver time). Fixes of genuine defects are "fix:" commits in /repo listed in /verif/known_findings.json.',
}
json.dump(man, open(os.path.join(VERIF, 'MANIFEST.json'), 'w'), indent=1)
print('claimed:', sorted(CHECKS), 'not applicable:', [x['property_id'] for x in na])
