#!/bin/bash
# try_seed_wt.sh <seed id> <CHECK> [tier] : run one check against a scratch worktree of /repo with the seeded change applied
# (never touches /repo itself; evidence and replays go to scratch directories). Appends the verdict to seeded/TRIES.txt
id=$1; chk=$2; tier=${3:-quick}
wt=/tmp/wt/try_${id}_$chk
git -C /repo worktree remove --force $wt 2>/dev/null
git -C /repo worktree add -q --detach $wt HEAD || exit 2
git -C $wt apply /verif/seeded/$id/patch.diff || { echo "$id: patch does not apply"; git -C /repo worktree remove --force $wt; exit 2; }
start=$(date +%s)
VERIF_REPO=$wt VERIF_EVIDENCE_DIR=/tmp/try_ev_${id}_$chk VERIF_REPLAY_DIR=/tmp/try_rp_${id}_$chk timeout 5400 python3-vt /verif/check.py $chk --tier $tier > /tmp/try_${id}_$chk.log 2>&1
rc=$?
n=$(grep -c "^VIOLATION" /tmp/try_${id}_$chk.log)
line="$id check=$chk tier=$tier exit=$rc violations=$n seconds=$(( $(date +%s) - start )) repo=$(git -C /repo rev-parse --short HEAD) verif=$(git -C /verif rev-parse --short HEAD)"
echo "$line" >> /verif/seeded/TRIES.txt; echo "$line"
grep -E "^VIOLATION|^   harness|reached at step" /tmp/try_${id}_$chk.log | cut -c1-260 | head -6
git -C /repo worktree remove --force $wt
rm -rf /tmp/try_ev_${id}_$chk /tmp/try_rp_${id}_$chk
