// ssaexport: go/ssa -> JSON exporter, the front end of the gosmt symbolic executor (see /verif/DESIGN.md section 2.1).
package main

import (
	"encoding/json"
	"flag"
	"fmt"
	"go/constant"
	"go/token"
	"go/types"
	"os"
	"strings"

	"golang.org/x/tools/go/packages"
	"golang.org/x/tools/go/ssa"
	"golang.org/x/tools/go/ssa/ssautil"
)

type J = map[string]interface{}

var typeTable = map[string]J{}

func typeName(t types.Type) string {
	if t == nil {
		return ""
	}
	t = types.Unalias(t)
	s := types.TypeString(t, nil)
	if _, ok := typeTable[s]; ok {
		return s
	}
	typeTable[s] = J{} // placeholder against recursion
	d := J{}
	switch u := t.(type) {
	case *types.Named:
		d["kind"] = "named"
		d["under"] = typeName(u.Underlying())
	case *types.Alias:
		d["kind"] = "named"
		d["under"] = typeName(types.Unalias(u))
	case *types.Basic:
		d["kind"] = "basic"
		d["basic"] = u.Name()
		d["info"] = int(u.Info())
	case *types.Pointer:
		d["kind"] = "ptr"
		d["elem"] = typeName(u.Elem())
	case *types.Slice:
		d["kind"] = "slice"
		d["elem"] = typeName(u.Elem())
	case *types.Array:
		d["kind"] = "array"
		d["elem"] = typeName(u.Elem())
		d["len"] = u.Len()
	case *types.Map:
		d["kind"] = "map"
		d["key"] = typeName(u.Key())
		d["elem"] = typeName(u.Elem())
	case *types.Chan:
		d["kind"] = "chan"
		d["elem"] = typeName(u.Elem())
	case *types.Struct:
		d["kind"] = "struct"
		var fs []J
		for i := 0; i < u.NumFields(); i++ {
			f := u.Field(i)
			fs = append(fs, J{"name": f.Name(), "type": typeName(f.Type()), "embedded": f.Embedded()})
		}
		d["fields"] = fs
	case *types.Tuple:
		d["kind"] = "tuple"
		var es []string
		for i := 0; i < u.Len(); i++ {
			es = append(es, typeName(u.At(i).Type()))
		}
		d["elems"] = es
	case *types.Signature:
		d["kind"] = "func"
	case *types.Interface:
		d["kind"] = "interface"
		var ms []string
		for i := 0; i < u.NumMethods(); i++ {
			ms = append(ms, u.Method(i).Name())
		}
		d["methods"] = ms
	case *types.TypeParam:
		d["kind"] = "typeparam"
	default:
		d["kind"] = fmt.Sprintf("%T", t)
	}
	typeTable[s] = d
	return s
}

func operand(v ssa.Value) J {
	switch x := v.(type) {
	case nil:
		return nil
	case *ssa.Const:
		o := J{"k": "const", "t": typeName(x.Type())}
		if x.Value == nil {
			o["nil"] = true
		} else {
			switch x.Value.Kind() {
			case constant.Bool:
				o["v"] = constant.BoolVal(x.Value)
			case constant.String:
				sv := constant.StringVal(x.Value)
				o["v"] = sv
				bs := make([]int, len(sv))
				for i := 0; i < len(sv); i++ {
					bs[i] = int(sv[i])
				}
				o["vb"] = bs // exact bytes (JSON would replace invalid UTF-8)
			case constant.Int:
				o["v"] = x.Value.ExactString()
			default:
				o["v"] = x.Value.ExactString()
			}
			o["ck"] = int(x.Value.Kind())
		}
		return o
	case *ssa.Parameter:
		return J{"k": "param", "n": x.Name(), "t": typeName(x.Type())}
	case *ssa.FreeVar:
		return J{"k": "freevar", "n": x.Name(), "t": typeName(x.Type())}
	case *ssa.Global:
		return J{"k": "global", "n": x.String(), "t": typeName(x.Type())}
	case *ssa.Function:
		return J{"k": "func", "n": x.String()}
	case *ssa.Builtin:
		return J{"k": "builtin", "n": x.Name()}
	default:
		return J{"k": "reg", "n": v.Name(), "t": typeName(v.Type())}
	}
}

func operands(vs []ssa.Value) []J {
	out := make([]J, len(vs))
	for i, v := range vs {
		out[i] = operand(v)
	}
	return out
}

func callCommon(c *ssa.CallCommon) J {
	o := J{"args": operands(c.Args)}
	if c.IsInvoke() {
		o["invoke"] = c.Method.Name()
		o["recv"] = operand(c.Value)
	} else {
		o["fn"] = operand(c.Value)
	}
	return o
}

func instr(in ssa.Instruction) J {
	o := J{"op": strings.TrimPrefix(fmt.Sprintf("%T", in), "*ssa.")}
	if v, ok := in.(ssa.Value); ok {
		o["name"] = v.Name()
		o["type"] = typeName(v.Type())
	}
	if p := in.Pos(); p.IsValid() {
		o["pos"] = int(p)
	}
	switch x := in.(type) {
	case *ssa.Alloc:
		o["heap"] = x.Heap
		o["elem"] = typeName(x.Type().Underlying().(*types.Pointer).Elem())
	case *ssa.BinOp:
		o["tok"] = x.Op.String()
		o["x"], o["y"] = operand(x.X), operand(x.Y)
	case *ssa.UnOp:
		o["tok"] = x.Op.String()
		o["x"] = operand(x.X)
		o["commaok"] = x.CommaOk
	case *ssa.Call:
		o["call"] = callCommon(x.Common())
	case *ssa.Defer:
		o["call"] = callCommon(x.Common())
	case *ssa.Go:
		o["call"] = callCommon(x.Common())
	case *ssa.ChangeInterface:
		o["x"] = operand(x.X)
	case *ssa.ChangeType:
		o["x"] = operand(x.X)
	case *ssa.Convert:
		o["x"] = operand(x.X)
	case *ssa.MultiConvert:
		o["x"] = operand(x.X)
	case *ssa.SliceToArrayPointer:
		o["x"] = operand(x.X)
	case *ssa.Extract:
		o["x"] = operand(x.Tuple)
		o["index"] = x.Index
	case *ssa.Field:
		o["x"] = operand(x.X)
		o["field"] = x.Field
	case *ssa.FieldAddr:
		o["x"] = operand(x.X)
		o["field"] = x.Field
	case *ssa.If:
		o["cond"] = operand(x.Cond)
	case *ssa.Index:
		o["x"], o["index"] = operand(x.X), operand(x.Index)
	case *ssa.IndexAddr:
		o["x"], o["index"] = operand(x.X), operand(x.Index)
	case *ssa.Jump:
	case *ssa.Lookup:
		o["x"], o["index"] = operand(x.X), operand(x.Index)
		o["commaok"] = x.CommaOk
	case *ssa.MakeChan:
		o["size"] = operand(x.Size)
	case *ssa.MakeClosure:
		o["fn"] = operand(x.Fn)
		o["bindings"] = operands(x.Bindings)
	case *ssa.MakeInterface:
		o["x"] = operand(x.X)
		o["xtype"] = typeName(x.X.Type())
	case *ssa.MakeMap:
		o["reserve"] = operand(x.Reserve)
	case *ssa.MakeSlice:
		o["len"], o["cap"] = operand(x.Len), operand(x.Cap)
	case *ssa.MapUpdate:
		o["map"], o["key"], o["value"] = operand(x.Map), operand(x.Key), operand(x.Value)
	case *ssa.Next:
		o["iter"] = operand(x.Iter)
		o["isstring"] = x.IsString
	case *ssa.Panic:
		o["x"] = operand(x.X)
	case *ssa.Phi:
		o["edges"] = operands(x.Edges)
	case *ssa.Range:
		o["x"] = operand(x.X)
	case *ssa.Return:
		o["results"] = operands(x.Results)
	case *ssa.RunDefers:
	case *ssa.Select:
		o["blocking"] = x.Blocking
		var sts []map[string]any
		for _, s := range x.States {
			m := map[string]any{"dir": int(s.Dir), "chan": operand(s.Chan)}
			if s.Send != nil {
				m["send"] = operand(s.Send)
			}
			sts = append(sts, m)
		}
		o["states"] = sts
	case *ssa.Send:
		o["chan"], o["x"] = operand(x.Chan), operand(x.X)
	case *ssa.Slice:
		o["x"], o["low"], o["high"], o["max"] = operand(x.X), operand(x.Low), operand(x.High), operand(x.Max)
	case *ssa.Store:
		o["addr"], o["val"] = operand(x.Addr), operand(x.Val)
	case *ssa.TypeAssert:
		o["x"] = operand(x.X)
		o["asserted"] = typeName(x.AssertedType)
		o["commaok"] = x.CommaOk
	case *ssa.DebugRef:
	default:
		o["unknown"] = true
	}
	return o
}

func fnJSON(fn *ssa.Function) J {
	o := J{"name": fn.String()}
	var ps []J
	for _, p := range fn.Params {
		ps = append(ps, operand(p))
	}
	o["params"] = ps
	var fvs []J
	for _, p := range fn.FreeVars {
		fvs = append(fvs, operand(p))
	}
	o["freevars"] = fvs
	if fn.Signature != nil {
		o["results"] = typeName(fn.Signature.Results())
	}
	var bs []J
	for _, b := range fn.Blocks {
		bj := J{"index": b.Index, "comment": b.Comment}
		var succs, preds []int
		for _, s := range b.Succs {
			succs = append(succs, s.Index)
		}
		for _, s := range b.Preds {
			preds = append(preds, s.Index)
		}
		bj["succs"], bj["preds"] = succs, preds
		var is []J
		for _, in := range b.Instrs {
			if _, ok := in.(*ssa.DebugRef); ok {
				continue
			}
			is = append(is, instr(in))
		}
		bj["instrs"] = is
		bs = append(bs, bj)
	}
	o["blocks"] = bs
	o["external"] = len(fn.Blocks) == 0
	return o
}

func main() {
	overlayFile := flag.String("overlay", "", "overlay json {Replace:{virtual:real}}")
	tags := flag.String("tags", "verif", "build tags")
	pkgsFlag := flag.String("pkgs", "./pkg/utils/path", "comma separated package patterns")
	allowFlag := flag.String("allow", "github.com/onosproject/onos-config/,github.com/onosproject/onos-api/,github.com/onosproject/onos-lib-go/pkg/errors,github.com/onosproject/onos-lib-go/pkg/controller,github.com/openconfig/gnmi/proto/", "prefixes of packages whose bodies are exported")
	modfile := flag.String("modfile", "", "scratch copy of /repo/go.mod (keeps the go tool from rewriting /repo/go.mod)")
	outFile := flag.String("o", "", "output file (default stdout)")
	repoDir := flag.String("repo", "/repo", "repository root")
	flag.Parse()
	roots := flag.Args()

	bf := []string{"-tags=" + *tags}
	if *modfile != "" {
		bf = append(bf, "-modfile="+*modfile)
	}
	cfg := &packages.Config{Mode: packages.LoadAllSyntax, Dir: *repoDir, Env: append(os.Environ(), "GOFLAGS=-mod=mod", "GOPROXY=off", "GOSUMDB=off", "GOTOOLCHAIN=local"),
		BuildFlags: bf}
	if *overlayFile != "" {
		var ov struct{ Replace map[string]string }
		data, err := os.ReadFile(*overlayFile)
		if err != nil {
			panic(err)
		}
		if err := json.Unmarshal(data, &ov); err != nil {
			panic(err)
		}
		cfg.Overlay = map[string][]byte{}
		for v, r := range ov.Replace {
			b, err := os.ReadFile(r)
			if err != nil {
				panic(err)
			}
			cfg.Overlay[v] = b
		}
	}
	pkgs, err := packages.Load(cfg, strings.Split(*pkgsFlag, ",")...)
	if err != nil {
		panic(err)
	}
	if packages.PrintErrors(pkgs) > 0 {
		os.Exit(1)
	}
	prog, _ := ssautil.AllPackages(pkgs, ssa.InstantiateGenerics)
	prog.Build()
	allow := strings.Split(*allowFlag, ",")
	allowed := func(fn *ssa.Function) bool {
		var p string
		if fn.Pkg != nil {
			p = fn.Pkg.Pkg.Path()
		} else if fn.Origin() != nil && fn.Origin().Pkg != nil {
			p = fn.Origin().Pkg.Pkg.Path()
		} else if fn.Parent() != nil && fn.Parent().Pkg != nil {
			p = fn.Parent().Pkg.Pkg.Path()
		} else if fn.Signature != nil && fn.Signature.Recv() != nil {
			// synthetic wrapper (promoted method): take the package of the receiver type
			rt := fn.Signature.Recv().Type()
			if pt, ok := rt.(*types.Pointer); ok {
				rt = pt.Elem()
			}
			if nt, ok := types.Unalias(rt).(*types.Named); ok && nt.Obj().Pkg() != nil {
				p = nt.Obj().Pkg().Path()
			}
		}
		for _, a := range allow {
			if strings.HasPrefix(p+"/", a) || strings.HasPrefix(p, a) {
				return true
			}
		}
		return false
	}
	all := ssautil.AllFunctions(prog)
	byName := map[string]*ssa.Function{}
	for fn := range all {
		byName[fn.String()] = fn
	}
	var work []*ssa.Function
	for _, r := range roots {
		fn, ok := byName[r]
		if !ok {
			fmt.Fprintln(os.Stderr, "root not found:", r)
			os.Exit(1)
		}
		work = append(work, fn)
	}
	seen := map[*ssa.Function]bool{}
	out := J{}
	funcs := J{}
	ifaceTypes := map[string]types.Type{}   // concrete types converted to interfaces
	invoked := map[string]bool{}            // method names invoked through interfaces
	assertedIfaces := map[string]types.Type{}
	methods := map[string]map[string]string{}
	implements := map[string]map[string]bool{}
	globals := J{}
	inits := map[string]bool{}
	globalInit := J{}
	process := func() {
		for len(work) > 0 {
			fn := work[len(work)-1]
			work = work[:len(work)-1]
			if seen[fn] {
				continue
			}
			seen[fn] = true
			if !allowed(fn) {
				funcs[fn.String()] = J{"name": fn.String(), "external": true}
				continue
			}
			funcs[fn.String()] = fnJSON(fn)
			if fn.Pkg != nil {
				if initFn := fn.Pkg.Func("init"); initFn != nil && !inits[fn.Pkg.Pkg.Path()] {
					inits[fn.Pkg.Pkg.Path()] = true
					// scan init for `*G = regexp.MustCompile("const")` so that the engine knows compiled patterns
					for _, b := range initFn.Blocks {
						for _, in := range b.Instrs {
							st, ok := in.(*ssa.Store)
							if !ok {
								continue
							}
							g, ok := st.Addr.(*ssa.Global)
							if !ok {
								continue
							}
							if call, ok := st.Val.(*ssa.Call); ok {
								if callee := call.Common().StaticCallee(); callee != nil && callee.String() == "regexp.MustCompile" {
									if c, ok := call.Common().Args[0].(*ssa.Const); ok {
										globalInit[g.String()] = J{"regexp": constant.StringVal(c.Value)}
									}
								}
							}
						}
					}
				}
			}
			for _, b := range fn.Blocks {
				for _, in := range b.Instrs {
					switch x := in.(type) {
					case *ssa.MakeInterface:
						ifaceTypes[typeName(x.X.Type())] = x.X.Type()
					case *ssa.TypeAssert:
						if types.IsInterface(x.AssertedType) {
							assertedIfaces[typeName(x.AssertedType)] = x.AssertedType
						}
					case ssa.CallInstruction:
						if x.Common().IsInvoke() {
							invoked[x.Common().Method.Name()] = true
						}
					}
					var ops [12]*ssa.Value
					for _, op := range in.Operands(ops[:0]) {
						if op == nil || *op == nil {
							continue
						}
						switch v := (*op).(type) {
						case *ssa.Function:
							work = append(work, v)
						case *ssa.Global:
							fn := prog.Fset.Position(v.Pos()).Filename
							globals[v.String()] = J{"type": typeName(v.Type()), "pkg": v.Pkg.Pkg.Path(),
								"harness": strings.Contains(fn, "zz_verif") || strings.Contains(fn, "/internal/verif")}
						}
					}
				}
			}
		}
	}
	for {
		process()
		added := false
		for tn, t := range ifaceTypes {
			ms := prog.MethodSets.MethodSet(t)
			if methods[tn] == nil {
				methods[tn] = map[string]string{}
			}
			for i := 0; i < ms.Len(); i++ {
				sel := ms.At(i)
				name := sel.Obj().Name()
				if !invoked[name] {
					continue
				}
				if _, ok := methods[tn][name]; ok {
					continue
				}
				mf := prog.MethodValue(sel)
				if mf == nil {
					continue
				}
				methods[tn][name] = mf.String()
				work = append(work, mf)
				added = true
			}
			if implements[tn] == nil {
				implements[tn] = map[string]bool{}
			}
			for in, it := range assertedIfaces {
				implements[tn][in] = types.Implements(t, it.Underlying().(*types.Interface))
			}
		}
		if !added {
			break
		}
	}
	out["methods"] = methods
	out["implements"] = implements
	out["globals"] = globals
	out["globalinit"] = globalInit
	out["funcs"] = funcs
	out["types"] = typeTable
	_ = token.NoPos
	w := os.Stdout
	if *outFile != "" {
		f, err := os.Create(*outFile)
		if err != nil {
			panic(err)
		}
		defer f.Close()
		w = f
	}
	enc := json.NewEncoder(w)
	if err := enc.Encode(out); err != nil {
		panic(err)
	}
}
