// gohelper: native evaluation of pure library functions on concrete arguments for the symbolic executor
// (DESIGN.md 2.1: exact semantics whenever arguments are concrete). Line protocol: one JSON request per line on
// stdin, one JSON reply per line on stdout. Strings are passed as arrays of byte values.
package main

import (
	"bufio"
	"encoding/json"
	"os"
	"regexp"
)

type req struct {
	Op  string `json:"op"`
	Pat []int  `json:"pat"`
	S   []int  `json:"s"`
	N   int    `json:"n"`
}

type rep struct {
	OK      bool      `json:"ok"`            // pattern compiles
	Match   bool      `json:"match"`         // MatchString
	Str     []int     `json:"str,omitempty"` // FindString / ReplaceAllString result
	Rows    [][][]int `json:"rows"`          // FindAllStringSubmatch
	Err     string    `json:"err,omitempty"`
}

func bs(a []int) string {
	b := make([]byte, len(a))
	for i, x := range a {
		b[i] = byte(x)
	}
	return string(b)
}

func ia(s string) []int {
	out := make([]int, len(s))
	for i := 0; i < len(s); i++ {
		out[i] = int(s[i])
	}
	return out
}

func main() {
	in := bufio.NewReaderSize(os.Stdin, 1<<20)
	out := bufio.NewWriter(os.Stdout)
	cache := map[string]*regexp.Regexp{}
	for {
		line, err := in.ReadBytes('\n')
		if len(line) > 0 {
			var r req
			var p rep
			if e := json.Unmarshal(line, &r); e != nil {
				p.Err = e.Error()
			} else {
				pat := bs(r.Pat)
				rx, seen := cache[pat]
				if !seen {
					rx, _ = regexp.Compile(pat)
					cache[pat] = rx
				}
				p.OK = rx != nil
				if rx != nil {
					s := bs(r.S)
					switch r.Op {
					case "match":
						p.Match = rx.MatchString(s)
					case "findstring":
						p.Str = ia(rx.FindString(s))
					case "replaceall":
						p.Str = ia(rx.ReplaceAllString(s, bs([]int{r.N})))
					case "findall":
						for _, m := range rx.FindAllStringSubmatch(s, -1) {
							var row [][]int
							for _, g := range m {
								row = append(row, ia(g))
							}
							p.Rows = append(p.Rows, row)
						}
					}
				}
			}
			b, _ := json.Marshal(p)
			out.Write(b)
			out.WriteByte('\n')
			out.Flush()
		}
		if err != nil {
			return
		}
	}
}
