module gohelper

go 1.23
