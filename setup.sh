#!/bin/bash
# builds the SSA exporter from files on disk only (offline) and byte-compiles the executor
set -e
mkdir -p /verif/bin
export GOFLAGS=-mod=mod GOPROXY=off GOSUMDB=off GOTOOLCHAIN=local
cd /verif/engine/ssaexport
mkdir -p /verif/bin
go build -o /verif/bin/ssaexport .
cd /verif/engine/gohelper && go build -o /verif/bin/gohelper .
cd /verif
python3-vt -m py_compile symex/gosmt.py symex/driver.py check.py
python3-vt -c "import z3; print('z3', z3.get_version_string())"
echo setup ok
