#!/usr/bin/env python3
"""Transition systems extracted from the real Reconcile methods (DESIGN.md section 4).

extract(): executes the harness entry VerifStepEntry once on a fully symbolic state; the post-state of the global
state vector S as terms over the pre-state leaves, the scheduler choice and the per-step parameters is the
transition relation T of the real code. Named definitions introduced by the executor are kept as part of T.
bmc(): unrolls T from the initial state and asks z3 for a state satisfying a named predicate (SAT = schedule)."""
import json, os, sys, time, multiprocessing, traceback
import z3
import gosmt
from base import *


class TS:
    def __init__(self, progfile, pkg, entry='VerifStepEntry', unwind=8, opts=None):
        self.pkg = pkg
        prog = gosmt.load_prog(progfile)
        eng = gosmt.Engine(prog)
        eng.unwind = unwind
        for k, v in (opts or {}).items():
            setattr(eng, k, v)
        self.eng = eng
        st = gosmt.State(True, {}, {}, ())
        t0 = time.time()
        eng.call(st, pkg + '.' + entry, [], {'type': None})
        self.extract_s = time.time() - t0
        self.stats = eng.stats
        pre_pc, pre_heap = eng.snapshots['pre']
        end_pc, end_heap = eng.snapshots['end']
        self.guard = zbool(end_pc)
        # pre leaves in havoc order
        self.state_leaves = [(n, v) for n, v in eng.havoc_leaves if n.startswith('s.')]
        self.param_leaves = [(n, v) for n, v in eng.havoc_leaves if n.startswith('p.')]
        self.choice = eng.inputs['choice#0']
        # post values of S in the same order
        sobj = eng.global_obj[pkg + '.S']
        post_val = end_heap.get(sobj)
        flat = []

        def leaves(v):
            if isinstance(v, tuple):
                for x in v:
                    leaves(x)
            else:
                flat.append(v)
        leaves(post_val)
        assert len(flat) == len(self.state_leaves), (len(flat), len(self.state_leaves))
        self.post = []
        for (n, pv), v in zip(self.state_leaves, flat):
            if not is_sym(v):
                v = z3.BoolVal(bool(v)) if z3.is_bool(pv) else z3.BitVecVal(v, pv.size())
            self.post.append(v)
        self.defs = list(eng.defs)
        self.regions = {k: zbool(v) for k, v in eng.regions.items()}
        self.obligations = list(eng.obligations)
        self.covers = list(eng.covers)
        # base constraints of the engine solver that are not definitions (input domain constraints)
        self.base = [a for a in eng.solver.assertions()]
        self.leaf_index = {n: i for i, (n, v) in enumerate(self.state_leaves)}
        self.contract_conds = {}
        for label, cond in self.obligations:
            if cond is not False and label.split(':')[0] not in ('unwind', 'bound'):
                self.contract_conds[label] = z3.Or(self.contract_conds[label], zbool(cond)) if label in self.contract_conds else zbool(cond)

    # -------------------------------------------------------------------------------------------- unrolling
    def size(self):
        seen = set()

        def walk(t):
            stack = [t]
            while stack:
                x = stack.pop()
                if x.get_id() in seen:
                    continue
                seen.add(x.get_id())
                stack.extend(x.children())
        for t in self.post + [self.guard] + [b for g, b in self.defs]:
            walk(t)
        return len(seen)

    def step_vars(self, k):
        """renaming of every step-local symbol for step k: state leaves -> S_k, post -> S_{k+1}, rest suffixed"""
        sub = []
        for n, v in self.state_leaves:
            sub.append((v, self.svar(n, v, k)))
        for n, v in self.param_leaves:
            sub.append((v, self.mk(v, '%s@%d' % (n, k))))
        sub.append((self.choice, z3.BitVec('choice@%d' % k, 64)))
        for g, b in self.defs:
            sub.append((g, z3.Bool('%s@%d' % (g.decl().name(), k))))
        # other inputs of the engine (nondet values created inside the step)
        known = {v.get_id() for v, _ in sub}
        for n, v in self.eng.inputs.items():
            if is_sym(v) and v.get_id() not in known:
                sub.append((v, self.mk(v, '%s@%d' % (n, k))))
        return sub

    @staticmethod
    def mk(like, name):
        return z3.Bool(name) if z3.is_bool(like) else z3.BitVec(name, like.size())

    def svar(self, n, like, k):
        return self.mk(like, '%s@S%d' % (n, k))

    def unroll(self, depth, normal_form=True, stutter_choice=None, extra_step=None, init_state=None):
        """returns (constraints, choices)"""
        cons = []
        # initial state: everything zero except the environment constants (Verdict); or a given (waypoint) state
        for n, v in self.state_leaves:
            sv = self.svar(n, v, 0)
            if init_state is not None:
                if n in init_state:
                    x = init_state[n]
                    cons.append(sv == (z3.BoolVal(bool(x)) if z3.is_bool(v) else z3.BitVecVal(x, v.size())))
                continue
            if '.Verdict' in n:
                continue
            cons.append(sv == (z3.BoolVal(False) if z3.is_bool(v) else z3.BitVecVal(0, v.size())))
        # the whole step as ONE formula over (pre leaves, params, choice, defs, next-state placeholders):
        # a single substitution per unrolled step
        nxt = [self.mk(v, '%s@NEXT' % n) for n, v in self.state_leaves]
        step = z3.And([self.guard] + [g == b for g, b in self.defs] + self.base +
                      [nv == pv for nv, pv in zip(nxt, self.post)])
        choices = []
        for k in range(depth):
            sub = self.step_vars(k) + [(nv, self.svar(n, v, k + 1)) for nv, (n, v) in zip(nxt, self.state_leaves)]
            cons.append(z3.substitute(step, *sub))
            ck = z3.BitVec('choice@%d' % k, 64)
            choices.append(ck)
            if normal_form and stutter_choice is not None:
                changed = z3.Or([self.svar(n, v, k) != self.svar(n, v, k + 1) for n, v in self.state_leaves])
                cons.append(z3.Or(changed, ck == stutter_choice))
                if k > 0:
                    cons.append(z3.Implies(choices[k - 1] == stutter_choice, ck == stutter_choice))
            if extra_step is not None:
                cons.extend(extra_step(self, k))
        return cons, choices

    def pred_at(self, name, k):
        """named state predicate (Region evaluated on the pre-state of the extraction) instantiated on state k"""
        p = self.regions[name]
        sub = [(v, self.svar(n, v, k)) for n, v in self.state_leaves]
        # predicates may mention definitional names: instantiate those as well (fresh per use)
        p2 = self.eng.expand(p, self.eng.region_defs.get(name))
        return z3.substitute(p2, *sub)

    def state_value(self, model, k):
        out = {}
        for n, v in self.state_leaves:
            x = model.eval(self.svar(n, v, k), model_completion=True)
            out[n] = z3.is_true(x) if z3.is_bool(x) else x.as_long()
        return out


def make_solver(mode='tactic'):
    if mode == 'tactic':
        return z3.Then('simplify', 'propagate-values', 'solve-eqs', 'simplify', 'bit-blast', 'sat').solver()
    if mode == 'qfbv':
        return z3.SolverFor('QF_BV')
    return z3.Solver()


def bmc_query(ts, depth, bad_names, stutter_choice, timeout_s=1500, extra_init=None, extra_step=None, any_step=True, mode='tactic',
              stuck=None, seed=None, block=None):
    """is some state satisfying one of the named predicates reachable within `depth` steps?
    returns dict(result, seconds, schedule, params, verdict, step)"""
    t0 = time.time()
    prefix = None
    init_state = None
    if seed is not None and seed.get('variants', 1) > 1 and block is None:
        # several waypoint states of the class: the continuation is explored from each (a state already used is blocked)
        used, last = [], None
        for i in range(seed['variants']):
            s1 = dict(seed, variants=1, _block=list(used))
            last = bmc_query(ts, depth, bad_names, stutter_choice, timeout_s, extra_init, extra_step, any_step, mode, stuck, s1)
            last['waypoint_variants'] = i + 1
            if last['result'] != 'unsat' or 'waypoint_state' not in last:
                if last['result'].startswith('seed-') and i > 0:
                    last = dict(prev, waypoint_variants=i)      # no further state of the class: the earlier verdicts stand
                return last
            used.append(last['waypoint_state'])
            prev = last
        return last
    if seed is not None:
        # waypoint: first find a schedule to a state satisfying the seed predicate, then explore from that concrete
        # state (verdicts of transactions that do not exist yet stay free)
        prefix = bmc_query(ts, seed['depth'], [seed['pred']], stutter_choice, timeout_s, seed=seed.get('seed'), block=seed.get('_block') or [])
        if prefix['result'] != 'sat':
            return {'result': 'seed-' + prefix['result'], 'build_s': prefix.get('build_s', 0), 'solve_s': prefix.get('solve_s', 0),
                    'depth': depth, 'preds': list(bad_names), 'seed': seed}
        init_state = dict(prefix['hit_state'])
        nx_exists = {n.split('.Txs[')[1].split(']')[0] for n, v in init_state.items() if '.Txs[' in n and n.endswith('.Exists#0') and v}
        for n in list(init_state):
            if '.Verdict' in n:
                x = n.split(']')[-2].split('[')[-1]
                if x not in nx_exists:
                    del init_state[n]
    cons, choices = ts.unroll(depth, True, stutter_choice, extra_step, init_state)
    s = make_solver(mode)
    s.set('timeout', int(timeout_s * 1000)) if mode != 'tactic' else None
    for c in cons:
        s.add(c)
    if extra_init is not None:
        for c in extra_init(ts):
            s.add(c)
    steps = range(depth + 1) if any_step else [depth]
    if stuck is not None:
        # the final state is a fixed point of every reconcile choice (fault-free, crash-free parameters): the step
        # relation is instantiated once per choice from S_depth and must give back S_depth
        steps = [depth]
        nxt = [ts.mk(v, '%s@NEXT' % n) for n, v in ts.state_leaves]
        stepf = z3.And([ts.guard] + [g == b for g, b in ts.defs] + ts.base + [nv == pv for nv, pv in zip(nxt, ts.post)])
        for c in stuck['choices']:
            sub = []
            for n, v in ts.state_leaves:
                sub.append((v, ts.svar(n, v, depth)))
            for n, v in ts.param_leaves:
                base = n.split('#')[0]
                val = stuck['params'].get(base, 0)
                sub.append((v, z3.BoolVal(bool(val)) if z3.is_bool(v) else z3.BitVecVal(val, v.size())))
            sub.append((ts.choice, z3.BitVecVal(c, 64)))
            for g, b in ts.defs:
                sub.append((g, z3.Bool('%s@probe%d' % (g.decl().name(), c))))
            known = {v.get_id() for v, _ in sub}
            for n, v in ts.eng.inputs.items():
                if is_sym(v) and v.get_id() not in known:
                    sub.append((v, ts.mk(v, '%s@probe%d' % (n, c))))
            # next state of the probe = the state itself (ghost monitors excluded from the comparison)
            for nv, (n, v) in zip(nxt, ts.state_leaves):
                if any(gh in n for gh in stuck.get('ignore', ())):
                    sub.append((nv, ts.mk(v, '%s@probe%d' % (n, c))))
                else:
                    sub.append((nv, ts.svar(n, v, depth)))
            s.add(z3.substitute(stepf, *sub))
    targets = []
    for b in bad_names:
        if b.startswith('contract:'):
            # a step contract violated by step k (transition predicate over step k's variables)
            cond = ts.contract_conds[b[len('contract:'):]]
            for k in range(depth):
                targets.append(z3.substitute(cond, *ts.step_vars(k)))
        else:
            for k in steps:
                t = ts.pred_at(b, k)
                for bs in (block or []):
                    # a waypoint state used before: this one differs from it in some non-ghost leaf
                    diff = []
                    for n, v in ts.state_leaves:
                        if n in bs and not any(gh in n for gh in GHOST_LEAVES):
                            sv = ts.svar(n, v, k)
                            diff.append(sv != (z3.BoolVal(bool(bs[n])) if z3.is_bool(v) else z3.BitVecVal(bs[n], v.size())))
                    t = z3.And(t, z3.Or(diff))
                targets.append(t)
    s.add(z3.Or(targets))
    t1 = time.time()
    r = s.check()
    res = {'result': str(r), 'build_s': round(t1 - t0, 1), 'solve_s': round(time.time() - t1, 1), 'depth': depth,
           'preds': list(bad_names)}
    if r == z3.sat:
        m = s.model()
        res['schedule'] = [m.eval(c, model_completion=True).as_signed_long() for c in choices]
        params = []
        for k in range(depth):
            d = {}
            for n, v in ts.param_leaves:
                x = m.eval(ts.mk(v, '%s@%d' % (n, k)), model_completion=True)
                d[n] = z3.is_true(x) if z3.is_bool(x) else (x.as_signed_long() if n.split('#')[0] in ts.eng.signed_inputs else x.as_long())
            params.append(d)
        res['params'] = params
        s0 = ts.state_value(m, 0)
        res['init'] = {n: v for n, v in s0.items() if v not in (0, False)}
        res['states'] = [ts.state_value(m, k) for k in range(depth + 1)]
        hit = None
        for k in steps:
            for b in bad_names:
                if b.startswith('contract:'):
                    if k < depth and z3.is_true(m.eval(z3.substitute(ts.contract_conds[b[len('contract:'):]], *ts.step_vars(k)), model_completion=True)):
                        hit = (b, k + 1)
                        break
                elif z3.is_true(m.eval(ts.pred_at(b, k), model_completion=True)):
                    hit = (b, k)
                    break
            if hit:
                break
        res['hit'] = hit
        res['hit_state'] = res['states'][hit[1] if hit else depth]
        if prefix is not None:
            # splice the waypoint prefix in front (schedule, parameters, initial verdicts)
            hk = prefix['hit'][1]
            res['schedule'] = prefix['schedule'][:hk] + res['schedule']
            res['params'] = prefix['params'][:hk] + res['params']
            if hit:
                res['hit'] = (hit[0], hit[1] + hk)
            # plugin verdicts: those of transactions that existed at the waypoint are fixed by the prefix, the others were
            # left free for the continuation: its model decides them, ALSO when it chose false (res['init'] lists only
            # true values, so the prefix's arbitrary choice for a not-yet-existing transaction must not survive)
            init = dict(prefix.get('init', {}))
            for n, v in s0.items():
                if '.Verdict' in n and (init_state is None or n not in init_state):
                    init[n] = v
            res['init'] = {n: v for n, v in init.items() if '.Verdict' in n and v}
            res['seed_steps'] = hk
    if prefix is not None:
        res['waypoint_state'] = prefix['hit_state']
    if 'states' in res and seed is None and not any(b.startswith('reach') or True for b in []):
        pass
    return res


def replay_inputs(res, upto=None):
    """inputs of the native VerifRun entry for a BMC model"""
    n = len(res['schedule']) if upto is None else upto
    inp = {'steps#0': n, 'probe#0': bool(res.get('kind') == 'stuck')}
    for k in range(n):
        inp['choice#%d' % k] = res['schedule'][k]
        for name, v in res['params'][k].items():
            base = name.split('#')[0]
            inp['%s#%d' % (base, k)] = v
    for name, v in res.get('init', {}).items():
        if '.Verdict' in name:
            inp[name] = v
    return inp


# ------------------------------------------------------------------------------------------------ orchestration
V2_FILES = {
    'internal/verifv2/step.go': 'v2/step.go', 'internal/verifv2/entry.go': 'v2/entry.go',
    'internal/verifv2/props.go': 'v2/props.go',
    'pkg/controller/v2/transaction/zz_verif_ctor.go': 'v2/ctor_tx.go',
    'pkg/controller/v2/proposal/zz_verif_ctor.go': 'v2/ctor_prop.go',
    'pkg/controller/v2/configuration/zz_verif_ctor.go': 'v2/ctor_cfg.go',
    'pkg/controller/v2/mastership/zz_verif_ctor.go': 'v2/ctor_ms.go',
}
CONTENT_CUTS = {
    'github.com/onosproject/onos-config/pkg/utils/v2/tree.BuildTree': 'nil-bytes-nil-error',
    'github.com/onosproject/onos-config/pkg/utils/v2/tree.PrunePathValues': 'identity-arg0',
    'github.com/onosproject/onos-config/pkg/utils/v2/values.PathValuesToGnmiChange': 'new-of-result',
}
_TS = {}
GHOST_LEAVES = ('.W.', 'RepushTerm', 'ResyncNoRepush', 'MaxCommitted', 'LastMerged', 'OutOfOrder', 'SendBefore', 'SendAfter', 'SendNot', 'SendWhile', '.Got[', 'LastSetTx', '.Sets')
TESTDIR = 'pkg/controller/v2/transaction'


def _bmc_worker(args):
    key, depth, preds, stutter, timeout_s, kind = args[:6]
    stuck = args[6] if len(args) > 6 else None
    seed = args[7] if len(args) > 7 else None
    try:
        r = bmc_query(_TS[key], depth, preds, stutter, timeout_s, stuck=stuck, seed=seed)
        r.pop('states', None)
        if seed:
            r['seed_pred'] = seed['pred']
    except Exception as e:
        r = {'result': 'error', 'error': '%s: %s' % (type(e).__name__, e), 'trace': traceback.format_exc()[-2000:],
             'depth': depth, 'preds': list(preds)}
    r['kind'] = kind
    return r


def write_consts(ctx, name, nt, nx, sync=False, rollback=False, faults=False, crash=False, versions=False, budget=1, family='v2', work=False):
    p = os.path.join(ctx.out, 'consts_%s.go' % name)
    b = lambda x: 'true' if x else 'false'
    if family == 'v3':
        open(p, 'w').write('//go:build verif\n\npackage verifv3\n\nconst (\n\tNX = %d\n\tWithRollback = %s\n\tWithFaults = %s\n'
                           '\tWithCrash = %s\n\tBudget = %d\n)\n' % (nx, b(rollback), b(faults), b(crash), budget))
        return p
    open(p, 'w').write('//go:build verif\n\npackage verifv2\n\nconst (\n\tNT = %d\n\tNX = %d\n\tWithSync = %s\n\tWithRollback = %s\n'
                       '\tWithFaults = %s\n\tWithCrash = %s\n\tWithVersions = %s\n\tBudget = %d\n\tWithWork = %s\n\tNProbe = %s\n)\n' % (nt, nx, b(sync), b(rollback), b(faults), b(crash), b(versions), budget, b(work), 'ChAppend' if work else '0'))
    return p


def num_choices(nt, nx):
    ch_tx = 0
    ch_prop = ch_tx + nx
    ch_cfg = ch_prop + nt * nx
    ch_master = ch_cfg + nt
    ch_append = ch_master + nt
    ch_rollback = ch_append + 1
    ch_connect = ch_rollback + 1
    ch_disc = ch_connect + nt
    ch_restart = ch_disc + nt
    ch_stutter = ch_restart + nt
    return {'tx': ch_tx, 'prop': ch_prop, 'cfg': ch_cfg, 'master': ch_master, 'append': ch_append, 'rollback': ch_rollback,
            'connect': ch_connect, 'disc': ch_disc, 'restart': ch_restart, 'stutter': ch_stutter}


V3_FILES = {
    'internal/verifv3/step.go': 'v3/step.go', 'internal/verifv3/entry.go': 'v3/entry.go', 'internal/verifv3/props.go': 'v3/props.go',
    'pkg/controller/v3/transaction/zz_verif_ctor.go': 'v3/ctor.go',
}
V3_CUTS = {
    'github.com/onosproject/onos-config/pkg/utils/v3/tree.BuildTree': 'nil-bytes-nil-error',
}


def run_protocol(ctx, driver, name, cfg, queries, contracts=None, cuts=True, unwind=8, timeout_s=1500, files=None,
                 pkg=None, known=None, confirm_depth=28):
    """cfg: dict(nt, nx, sync, rollback, faults, crash); queries: list of (kind, depth, [predicate names]) with
    kind 'reach' (must be SAT: vacuity witness) or 'bad' (must be UNSAT; SAT models are replayed natively);
    contracts: None = all assertion obligations, or a list of label prefixes to decide."""
    family = cfg.get('family', 'v2')
    hp = 'internal/verif' + family
    pkg = pkg or (driver.MOD + '/' + hp)
    f = dict(files or (V3_FILES if family == 'v3' else V2_FILES))
    f[hp + '/consts.go'] = write_consts(ctx, name, **cfg)
    prog = ctx.export(f, ['./' + hp], [pkg + '.VerifStepEntry', pkg + '.VerifRun'], tag='ts_' + name)
    opts = {'cuts': dict(V3_CUTS if family == 'v3' else CONTENT_CUTS)} if cuts else {}
    t = TS(prog, pkg, unwind=unwind, opts=opts)
    res = {'name': name, 'cfg': cfg, 'extract_s': round(t.extract_s, 1), 'leaves': len(t.state_leaves), 'defs': len(t.defs),
           'size': t.size(), 'instrs': t.stats['instrs'], 'funcs': dict(t.stats['funcs']), 'stubs': dict(t.stats['stubs']),
           'blocks': t.stats.get('blocks', 0), 'obligations': [], 'covers': [], 'queries': [], 'cuts': sorted(opts.get('cuts', {}))}
    driver.log('  [%s] extracted T: %.1fs, %d state leaves, %d nodes, %d SSA instructions' % (name, t.extract_s, len(t.state_leaves), res['size'], t.stats['instrs']))
    eng = t.eng
    eng.solver.set('timeout', 120000)
    # ---- step contracts (and panic sites) from an arbitrary state
    for label, pc in t.covers:
        r = 'sat' if pc is True else str(eng.solver.check(*[eng.name(zbool(pc))]))
        res['covers'].append({'label': label, 'result': r})
    for label, cond in t.obligations:
        kind = label.split(':')[0]
        if contracts is not None and kind not in ('panic', 'unwind', 'bound') and not any(label.startswith(p) for p in contracts):
            continue
        ob = {'label': label, 'trivial': cond is False}
        res['obligations'].append(ob)
        if cond is False:
            ob['result'] = 'unsat'
            continue
        t0 = time.time()
        rr = eng.solver.check(*[eng.name(zbool(cond))])
        ob['result'], ob['s'] = str(rr), round(time.time() - t0, 3)
        if rr == z3.sat:
            ob['model'] = driver._model_inputs(eng, eng.solver.model(), z3, gosmt)
    # ---- bounded model checking from the initial state (parallel queries)
    key = name
    _TS[key] = t
    ch = num_choices(cfg['nt'], cfg['nx'])
    if family == 'v3':
        nx = cfg['nx']
        ch = {'cfg': nx, 'append': nx, 'stutter': nx + 1 + nx + 2}
    jobs = []
    for q in queries:
        kind, depth, preds = q[:3]
        stuck = None
        if kind == 'stuck':
            # reconcile choices only (environment actions are outside prodding); fault/crash free parameters
            nrec = ch['cfg'] if not cfg.get('sync') else ch['append']
            stuck = {'choices': list(range(0, nrec)), 'params': {'p.CrashAfter': -1, 'p.DevCode': 0},
                     'ignore': ('.Crashes', '.Faults')}
        seed = q[3] if len(q) > 3 else None
        jobs.append((key, depth, preds, ch['stutter'], timeout_s, 'bad' if kind == 'seeded' else kind, stuck, seed))
    # a contract that fails from an arbitrary state is only a violation if the failing step is reachable:
    # ask the bounded model checker for a schedule from the initial state that ends in the failing step
    failing = sorted({ob['label'] for ob in res['obligations'] if ob['result'] == 'sat' and ob['label'].split(':')[0] not in ('unwind', 'bound')})
    for label in failing:
        jobs.append((key, confirm_depth, ['contract:' + label], ch['stutter'], timeout_s, 'contract'))
    if jobs:
        with multiprocessing.get_context('fork').Pool(min(driver.NCPU, len(jobs))) as pool:
            for r in pool.imap_unordered(_bmc_worker, jobs):
                res['queries'].append(r)
                driver.log('  [%s] bmc %s depth=%d %s -> %s (build %.0fs, solve %.0fs)%s' % (
                    name, r['kind'], r['depth'], ','.join(r['preds'])[:80], r['result'], r.get('build_s', 0), r.get('solve_s', 0),
                    ' hit=%s' % (r.get('hit'),) if r.get('hit') else ''))
    res['files'] = f
    res['pkg'] = pkg
    del _TS[key]
    return res, t


def post_protocol(ctx, driver, res, replay_budget=3):
    """classify, replay natively, and append to ctx.results in the driver's result format"""
    files, pkg = res['files'], res['pkg']
    pkgdir = 'internal/verif' + res['cfg'].get('family', 'v2')
    params = None
    out = {'entry': pkg + '.VerifStepEntry', 'harness': res['cfg'].get('family', 'v2') + '-' + res['name'], 'forks': res['cfg'], 'obligations': [], 'covers': [],
           'symex_s': res['extract_s'], 'total_s': res['extract_s'],
           'stats': {'instrs': res['instrs'], 'blocks': res['blocks'], 'funcs': res['funcs'], 'stubs': res['stubs']}}
    for c in res['covers']:
        out['covers'].append({'label': c['label'], 'result': c['result'], 'model': None, 's': 0})
        if c['result'] != 'sat':
            ctx.notes.append('VACUOUS cover %s in %s' % (c['label'], res['name']))
    for ob in res['obligations']:
        o = {'label': ob['label'], 'trivial': ob.get('trivial', False), 'result': ob['result'], 's': ob.get('s', 0)}
        out['obligations'].append(o)
        if ob['result'] == 'unsat':
            o['status'] = 'discharged'
            continue
        if ob['result'] != 'sat':
            o['status'] = 'inconclusive'
            ctx.notes.append('UNKNOWN contract %s in %s' % (ob['label'], res['name']))
            continue
        if ob['label'].split(':')[0] in ('bound', 'unwind'):
            o['status'] = 'bound-insufficient'
            ctx.notes.append('BOUND-INSUFFICIENT %s in %s' % (ob['label'], res['name']))
            continue
        # counterexample to the contract from an arbitrary state: confirmed (or not) by the 'contract' BMC query below
        o['status'] = 'cti'
    nrep = 0
    for q in sorted(res['queries'], key=lambda q: (q['kind'], q['depth'])):
        label = 'bmc:%s:k=%d%s:%s' % (q['kind'], q['depth'], ('+seed(%s)' % q['seed_pred']) if q.get('seed_pred') else '', ','.join(q['preds']))
        if q['kind'] == 'reach':
            c = {'label': label, 'result': q['result'], 'model': None, 's': q.get('solve_s', 0) + q.get('build_s', 0)}
            out['covers'].append(c)
            if q['result'] == 'sat':
                c['model'] = {'schedule': q['schedule'], 'init': q.get('init'), 'hit': q.get('hit')}
                if nrep < replay_budget:
                    nrep += 1
                    rr = ctx.replay(files, pkgdir, pkg, 'VerifRun', replay_inputs(q), 300, params, testdir=TESTDIR)
                    ok = bool(rr) and q['hit'] and q['hit'][0] in (rr.get('regions') or [])
                    c['replayed'] = ok
                    if ok:
                        ctx.replays_ok += 1
                    else:
                        ctx.notes.append('BMC-WITNESS-REPLAY-MISMATCH %s: %s' % (label, str(rr)[:300]))
                        driver.log('BMC-WITNESS-REPLAY-MISMATCH', label, str(rr)[:400])
            elif q['result'] == 'unsat':
                ctx.notes.append('VACUOUS: witness %s unreachable within depth %d' % (q['preds'], q['depth']))
            else:
                ctx.notes.append('UNKNOWN bmc witness %s: %s' % (label, q.get('error', q['result'])))
            continue
        o = {'label': label, 'trivial': False, 'result': q['result'], 's': q.get('solve_s', 0) + q.get('build_s', 0)}
        out['obligations'].append(o)
        if q['kind'] == 'contract' and q['result'] != 'sat':
            # the failing step was not reached from the initial state within the bound: a counterexample to
            # induction is not a finding (DESIGN.md 4.3); reported as inconclusive, never as a violation
            o['status'] = 'cti-unconfirmed'
            ctx.notes.append('CONTRACT-CTI %s fails from an arbitrary state but no schedule of <= %d steps from the initial state reaches the failing step (%s)' % (q['preds'][0], q['depth'], q['result']))
            driver.log('  CONTRACT-CTI (not a violation):', q['preds'][0], q['result'])
            continue
        if q['result'] == 'unsat':
            o['status'] = 'discharged'
        elif q['result'] == 'sat':
            inp = replay_inputs(q, upto=q['hit'][1] if (q.get('hit') and q['kind'] == 'contract') else None)
            rr = ctx.replay(files, pkgdir, pkg, 'VerifRun', inp, 300, params, testdir=TESTDIR)
            hitname = q['hit'][0] if q.get('hit') else None
            if hitname and hitname.startswith('contract:'):
                hitname = hitname[len('contract:'):]
                reproduced_ = bool(rr) and hitname in (rr.get('failed') or [])
            else:
                reproduced_ = bool(rr) and hitname in (rr.get('regions') or [])
                if q['kind'] == 'stuck':
                    reproduced_ = reproduced_ and 'fixed-point' in (rr.get('regions') or [])
            if reproduced_:
                key = (res['name'], hitname)
                ctx.replays_ok += 1
                if key in ctx.seen:
                    o['status'] = 'violated-duplicate'
                    continue
                ctx.seen.add(key)
                o['status'] = 'violated'
                path = ctx.keep_replay(hitname, 'VerifRun', inp, {'pkgdir': pkgdir, 'files': files, 'native_result': rr, 'cfg': res['cfg'],
                                                                 'schedule': q['schedule'], 'testdir': TESTDIR, 'params': params})
                ctx.violations.append((hitname, path))
                driver.log('VIOLATION property=%s replay=%s' % (ctx.pid, path))
                driver.log('   %s reached at step %s by schedule %s verdicts/init %s' % (hitname, q['hit'][1], q['schedule'], q.get('init')))
            else:
                o['status'] = 'encoder-mismatch'
                if os.environ.get('VERIF_KEEP_MISMATCH'):
                    mp = ctx.keep_replay(str(hitname) + '-MISMATCH', 'VerifRun', inp, {'pkgdir': pkgdir, 'files': files, 'native_result': rr, 'cfg': res['cfg'], 'schedule': q['schedule'], 'testdir': TESTDIR, 'params': params})
                    driver.log('  mismatch kept at', mp)
                ctx.notes.append('ENCODER-MISMATCH bmc %s: native=%s' % (label, str(rr)[:300]))
                driver.log('ENCODER-MISMATCH bmc', label, str(rr)[:400])
        else:
            o['status'] = 'inconclusive'
            ctx.notes.append('UNKNOWN bmc %s: %s' % (label, q.get('error', q['result'])))
    ctx.results.append(out)
    return out
