"""base helpers shared by the executor and the string layer: z3 term construction with constant folding"""
import z3


def is_sym(v):
    return isinstance(v, z3.ExprRef)


def bvc(v, bits):
    return z3.BitVecVal(v, bits)


def to_bv(v, bits):
    return v if is_sym(v) else bvc(v, bits)


def wrap(v, bits, signed):
    v &= (1 << bits) - 1
    if signed and v >> (bits - 1):
        v -= 1 << bits
    return v


def zbool(v):
    return v if is_sym(v) else z3.BoolVal(bool(v))


def And(*xs):
    out = []
    for x in xs:
        if x is True:
            continue
        if x is False:
            return False
        out.append(x)
    if not out:
        return True
    return out[0] if len(out) == 1 else z3.And(out)


def Or(*xs):
    out = []
    for x in xs:
        if x is False:
            continue
        if x is True:
            return True
        out.append(x)
    if not out:
        return False
    return out[0] if len(out) == 1 else z3.Or(out)


def Not(a):
    if a is True:
        return False
    if a is False:
        return True
    return z3.Not(a)


def sb(b):
    """simplify bool to python constant where possible"""
    if not is_sym(b):
        return bool(b)
    s = z3.simplify(b)
    if z3.is_true(s):
        return True
    if z3.is_false(s):
        return False
    return s


def si(v, signed=True):
    """simplify int; concrete results become python ints"""
    if not is_sym(v):
        return v
    s = z3.simplify(v)
    if z3.is_bv_value(s):
        return s.as_signed_long() if signed else s.as_long()
    return s


def ite_int(c, a, b, bits, signed=True):
    if not is_sym(a) and not is_sym(b) and a == b:
        return a
    return si(z3.If(c, to_bv(a, bits), to_bv(b, bits)), signed)


def ite_bool(c, a, b):
    if not is_sym(a) and not is_sym(b) and a == b:
        return a
    return sb(z3.If(c, zbool(a), zbool(b)))



def add64(a, b):
    if not is_sym(a) and not is_sym(b):
        return a + b
    return si(to_bv(a, 64) + to_bv(b, 64))


class Unsupported(Exception):
    pass
