"""String layer of the gosmt executor.

Three representations of a Go string / []byte content:
  * bytes        — concrete
  * ChoiceStr    — guarded set of concrete strings (paths drawn from a concrete universe / pool)
  * SymStr       — *length-indexed* symbolic string: alts = ((guard, cells), ...) with at most one alternative per
                   length; cells is a tuple of byte values (python ints or BV8 terms). Guards are exhaustive and
                   mutually exclusive under the path condition of the state holding the value. Every offset is
                   concrete: slicing with a symbolic index enumerates the (few) possible values of the index.
All operations are pure functions over these values; the ones that need the solver take the engine explicitly."""
import itertools
import z3
from base import *

ENG = [None]        # current engine (for naming guards)


def nm(g):
    """name a non-trivial guard in the current engine (keeps later terms small)"""
    e = ENG[0]
    if e is None or not is_sym(g):
        return g
    return e.name(g)


# ------------------------------------------------------------------ ChoiceStr
class ChoiceStr:    # alts = ((guard, bytes), ...), guards exhaustive & disjoint under pc
    __slots__ = ('alts',)

    def __init__(self, alts):
        self.alts = tuple(alts)


def str_alts(s):
    if isinstance(s, bytes):
        return ((True, s),)
    if isinstance(s, ChoiceStr):
        return s.alts
    return None


def choice_merge(c, a, b):
    out, order = {}, []
    for src, cond in ((a, c), (b, Not(c))):
        for g, v in str_alts(src):
            gg = And(cond, g)
            if gg is False:
                continue
            if v in out:
                out[v] = Or(out[v], gg)
            else:
                out[v] = gg
                order.append(v)
    alts = [(sb(out[v]), v) for v in order]
    alts = [(g, v) for g, v in alts if g is not False]
    if len(alts) == 1:
        return alts[0][1]
    return ChoiceStr(alts)


def choice_map(f, *ss):
    """apply f to every combination of concrete alternatives; returns list of (guard, result)"""
    res = []
    for combo in itertools.product(*[str_alts(s) for s in ss]):
        g = And(*[c[0] for c in combo])
        if g is False:
            continue
        res.append((g, f(*[c[1] for c in combo])))
    return res


def choice_bool(res):
    return sb(Or(*[g for g, r in res if r]))


def choice_int(res, bits=64):
    acc = res[-1][1]
    for g, r in reversed(res[:-1]):
        acc = ite_int(g, r, acc, bits)
    return acc


def choice_str(res):
    acc = res[-1][1]
    for g, r in reversed(res[:-1]):
        acc = choice_merge(g, r, acc)
    return acc


# ------------------------------------------------------------------ SymStr
class SymStr:
    __slots__ = ('alts',)

    def __init__(self, alts):
        self.alts = tuple(alts)

    @property
    def maxlen(self):
        return max(len(c) for g, c in self.alts) if self.alts else 0

    @property
    def minlen(self):
        return min(len(c) for g, c in self.alts) if self.alts else 0


def cell_ite(g, x, y):
    if not is_sym(x) and not is_sym(y):
        if x == y:
            return x
    elif is_sym(x) and is_sym(y) and x.eq(y):
        return x
    return z3.If(g, to_bv(x, 8), to_bv(y, 8))


def fuse(pairs):
    """drop false guards and fuse alternatives of equal length (cell-wise ite); returns a list of (guard, cells)"""
    by = {}
    for g, cells in pairs:
        if g is False:
            continue
        by.setdefault(len(cells), []).append((g, tuple(cells)))
    alts = []
    for n in sorted(by):
        lst = by[n]
        if len(lst) == 1:
            alts.append(lst[0])
            continue
        # mutually exclusive guards: nested ite, the last alternative is the default
        cells = list(lst[-1][1])
        for g, cs in reversed(lst[:-1]):
            cells = [cell_ite(g, x, y) for x, y in zip(cs, cells)]
        alts.append((sb(Or(*[g for g, _ in lst])), tuple(cells)))
    return [(g, c) for g, c in alts if g is not False]


def mk(pairs):
    """normalise a list of (guard, cells) into a string value: concrete result -> bytes"""
    alts = fuse(pairs)
    if not alts:
        return b''
    if len(alts) == 1:
        g, cells = alts[0]
        if all(not is_sym(x) for x in cells):
            return bytes(cells)
        return SymStr(((True, cells),))
    return SymStr([(nm(g), c) for g, c in alts])


def sym(s):
    if isinstance(s, SymStr):
        return s
    if isinstance(s, ChoiceStr):
        r = mk([(g, tuple(v)) for g, v in s.alts])
        return r if isinstance(r, SymStr) else SymStr(((True, tuple(r)),))
    return SymStr(((True, tuple(s)),))


class DecStr:
    """the decimal text of a 64-bit integer, kept abstract: (negative?, magnitude as 64-bit unsigned). Two decimal texts
    are equal iff sign and magnitude are equal; no other string operation is defined on it (used where the digits of a
    full-range number only flow into a comparison, e.g. RFC 7951 strings in a JSON document)"""
    __slots__ = ('neg', 'mag')

    def __init__(self, neg, mag):
        self.neg, self.mag = neg, mag


def dec_of_bytes(b):
    """DecStr view of a concrete byte string holding a canonical decimal number, else None"""
    import re as _re
    if not _re.fullmatch(rb'-?(0|[1-9][0-9]*)', b) or b == b'-0':
        return None
    v = int(b)
    if abs(v) >= 1 << 64:
        return None
    return DecStr(v < 0, z3.BitVecVal(abs(v), 64))


def is_str(v):
    return isinstance(v, (bytes, SymStr, ChoiceStr, DecStr))


def str_len(s):
    if isinstance(s, bytes):
        return len(s)
    if isinstance(s, ChoiceStr):
        return choice_int(choice_map(len, s))
    alts = s.alts
    acc = len(alts[-1][1])
    for g, c in reversed(alts[:-1]):
        acc = ite_int(g, len(c), acc, 64)
    return acc


def len_gt(s, k):
    """len(s) > k as a Boolean"""
    if isinstance(s, bytes):
        return len(s) > k
    s = sym(s)
    if all(len(c) > k for g, c in s.alts):
        return True
    return sb(Or(*[g for g, c in s.alts if len(c) > k]))


def str_at(s, i):
    """byte at index i (value is arbitrary for alternatives where i is out of range: bounds are checked separately)"""
    if isinstance(s, bytes) and not is_sym(i):
        return s[i] if 0 <= i < len(s) else 0
    s = sym(s)
    per = []
    for g, cells in s.alts:
        if not is_sym(i):
            v = cells[i] if 0 <= i < len(cells) else 0
        else:
            v = 0
            for j in reversed(range(len(cells))):
                v = cell_ite(i == j, cells[j], v)
        per.append((g, v))
    acc = per[-1][1]
    for g, v in reversed(per[:-1]):
        acc = cell_ite(g, v, acc)
    return si(acc, signed=False) if is_sym(acc) else acc


def cells_eq(a, b):
    conds = []
    for x, y in zip(a, b):
        if not is_sym(x) and not is_sym(y):
            if x != y:
                return False
        else:
            conds.append(to_bv(x, 8) == to_bv(y, 8))
    return And(*conds)


_OPAQUE_EQ = [0]


def str_eq(x, y):
    if isinstance(x, bytes) and isinstance(y, bytes):
        return x == y
    if type(x).__name__ == 'Opaque' or type(y).__name__ == 'Opaque':
        # a text the engine does not model (e.g. the result of an unsupported format verb): the outcome is unknown
        _OPAQUE_EQ[0] += 1
        return z3.Bool('opaque_text_eq_%d' % _OPAQUE_EQ[0])
    if isinstance(x, DecStr) or isinstance(y, DecStr):
        if isinstance(x, bytes):
            x = dec_of_bytes(x)
        if isinstance(y, bytes):
            y = dec_of_bytes(y)
        if x is None or y is None:
            return False            # a text that is not a canonical decimal number
        if not (isinstance(x, DecStr) and isinstance(y, DecStr)):
            raise Unsupported('comparison of a decimal text with a symbolic string')
        return sb(And(sb(zbool(x.neg) == zbool(y.neg)), sb(to_bv(x.mag, 64) == to_bv(y.mag, 64))))
    if str_alts(x) is not None and str_alts(y) is not None:
        return choice_bool(choice_map(lambda a, b: a == b, x, y))
    x, y = sym(x), sym(y)
    conds = []
    for gx, cx in x.alts:
        for gy, cy in y.alts:
            if len(cx) == len(cy):
                conds.append(And(gx, gy, cells_eq(cx, cy)))
    return sb(Or(*conds))


def str_lt(x, y):
    """lexicographic x < y (byte-wise)"""
    if isinstance(x, bytes) and isinstance(y, bytes):
        return x < y
    if str_alts(x) is not None and str_alts(y) is not None:
        return choice_bool(choice_map(lambda a, b: a < b, x, y))
    x, y = sym(x), sym(y)
    conds = []
    for gx, cx in x.alts:
        for gy, cy in y.alts:
            n = min(len(cx), len(cy))
            acc = len(cx) < len(cy)
            for j in reversed(range(n)):
                xj, yj = to_bv(cx[j], 8), to_bv(cy[j], 8)
                if not is_sym(cx[j]) and not is_sym(cy[j]):
                    acc = True if cx[j] < cy[j] else (acc if cx[j] == cy[j] else False)
                else:
                    acc = Or(z3.ULT(xj, yj), And(xj == yj, acc))
            conds.append(And(gx, gy, acc))
    return sb(Or(*conds))


def sym_ite_str(c, a, b):
    """merge of two strings under condition c"""
    if c is True:
        return a
    if c is False:
        return b
    if isinstance(a, bytes) and isinstance(b, bytes) and a == b:
        return a
    if str_alts(a) is not None and str_alts(b) is not None:
        return choice_merge(c, a, b)
    a, b = sym(a), sym(b)
    nc = Not(c)
    return mk([(And(c, g), cs) for g, cs in a.alts] + [(And(nc, g), cs) for g, cs in b.alts])


def sym_concat(a, b):
    if isinstance(a, bytes) and isinstance(b, bytes):
        return a + b
    if str_alts(a) is not None and str_alts(b) is not None:
        return choice_str(choice_map(lambda x, y: x + y, a, b))
    a, b = sym(a), sym(b)
    return mk([(And(ga, gb), ca + cb) for ga, ca in a.alts for gb, cb in b.alts])


def int_values(v, lo, hi):
    """candidate concrete values of an index: [(guard, value)] for lo <= value <= hi"""
    if not is_sym(v):
        return [(True, v)] if lo <= v <= hi else []
    return [(v == k, k) for k in range(lo, hi + 1)]


def str_slice(s, lo, hi):
    """s[lo:hi]; lo/hi are None (default), ints or BV64 terms. Returns (result, inrange condition)."""
    if isinstance(s, bytes) and not is_sym(lo) and not is_sym(hi):
        l = 0 if lo is None else lo
        h = len(s) if hi is None else hi
        if not (0 <= l <= h <= len(s)):
            return b'', False
        return s[l:h], True
    if isinstance(s, ChoiceStr) and not is_sym(lo) and not is_sym(hi):
        res = choice_map(lambda x: str_slice(x, lo, hi), s)
        return choice_str([(g, r[0]) for g, r in res]), sb(Or(*[g for g, r in res if r[1]]))
    s = sym(s)
    out, ok = [], []
    for g, cells in s.alts:
        n = len(cells)
        for glo, lv in ([(True, 0)] if lo is None else int_values(lo, 0, n)):
            for ghi, hv in ([(True, n)] if hi is None else int_values(hi, lv, n)):
                gg = sb(And(g, glo, ghi))
                if gg is False:
                    continue
                out.append((gg, cells[lv:hv]))
                ok.append(gg)
    inrange = sb(Or(*ok))
    if not out:
        return b'', inrange
    # keep the alternatives exhaustive: the out-of-range remainder maps to the empty string
    if inrange is not True:
        out.append((Not(inrange), ()))
    return mk(out), inrange


def match_at(cs, sub, o):
    """sub (cells) occurs in cs (cells) at offset o"""
    if o < 0 or o + len(sub) > len(cs):
        return False
    return cells_eq(cs[o:o + len(sub)], sub)


def sym_index(s, sub, last=False):
    """strings.Index / LastIndex as a BV64 (or int)"""
    if isinstance(s, bytes) and isinstance(sub, bytes):
        return s.rfind(sub) if last else s.find(sub)
    if str_alts(s) is not None and str_alts(sub) is not None:
        return choice_int(choice_map(lambda x, y: x.rfind(y) if last else x.find(y), s, sub))
    s, sub = sym(s), sym(sub)
    per = []
    for gs, cs in s.alts:
        for gb, cb in sub.alts:
            acc = -1
            rng = range(len(cs) - len(cb) + 1)
            for o in (rng if last else reversed(rng)):
                acc = ite_int(match_at(cs, cb, o), o, acc, 64)
            per.append((And(gs, gb), acc))
    acc = per[-1][1]
    for g, v in reversed(per[:-1]):
        acc = ite_int(g, v, acc, 64)
    return acc


def sym_contains(s, sub):
    if isinstance(s, bytes) and isinstance(sub, bytes):
        return sub in s
    if str_alts(s) is not None and str_alts(sub) is not None:
        return choice_bool(choice_map(lambda x, y: y in x, s, sub))
    s, sub = sym(s), sym(sub)
    conds = []
    for gs, cs in s.alts:
        for gb, cb in sub.alts:
            conds.append(And(gs, gb, Or(*[match_at(cs, cb, o) for o in range(len(cs) - len(cb) + 1)])))
    return sb(Or(*conds))


def sym_hasprefix(s, pre):
    if isinstance(s, bytes) and isinstance(pre, bytes):
        return s.startswith(pre)
    if str_alts(s) is not None and str_alts(pre) is not None:
        return choice_bool(choice_map(lambda x, y: x.startswith(y), s, pre))
    s, pre = sym(s), sym(pre)
    return sb(Or(*[And(gs, gp, match_at(cs, cp, 0)) for gs, cs in s.alts for gp, cp in pre.alts]))


def sym_hassuffix(s, suf):
    if isinstance(s, bytes) and isinstance(suf, bytes):
        return s.endswith(suf)
    if str_alts(s) is not None and str_alts(suf) is not None:
        return choice_bool(choice_map(lambda x, y: x.endswith(y), s, suf))
    s, suf = sym(s), sym(suf)
    return sb(Or(*[And(gs, gp, match_at(cs, cp, len(cs) - len(cp))) for gs, cs in s.alts for gp, cp in suf.alts]))


def sym_map1(s, f):
    """apply a per-alternative function cells -> list of (guard, cells)"""
    s = sym(s)
    out = []
    for g, cs in s.alts:
        for g2, r in f(cs):
            out.append((And(g, g2), r))
    return mk(out)


def sym_trim(s, cutset, left, right):
    if isinstance(s, bytes):
        if left:
            s = s.lstrip(cutset)
        if right:
            s = s.rstrip(cutset)
        return s
    if str_alts(s) is not None:
        return choice_str(choice_map(lambda x: sym_trim(x, cutset, left, right), s))

    def incut(x):
        if not is_sym(x):
            return x in cutset
        return Or(*[x == c for c in cutset])

    def f(cs):
        n = len(cs)
        ic = [incut(x) for x in cs]
        res = []
        for a in (range(n + 1) if left else [0]):
            # a = number of leading bytes removed
            ga = And(*ic[:a]) if a else True
            if left and a < n:
                ga = And(ga, Not(ic[a]))
            if ga is False:
                continue
            for b in (range(a, n + 1) if right else [n]):
                # b = end of the kept part
                gb = And(*ic[b:]) if b < n else True
                if right and b > a:
                    gb = And(gb, Not(ic[b - 1]))
                elif right and b == a and a < n:
                    continue        # a < n means cs[a] is kept, so b > a
                gg = And(ga, gb)
                if gg is False:
                    continue
                res.append((gg, cs[a:b]))
        return res
    return sym_map1(s, f)


def sym_replace1(s, old, new):
    """strings.Replace(s, old, new, 1)"""
    s, old, new = sym(s), sym(old), sym(new)
    out = []
    for gs, cs in s.alts:
        for go, co in old.alts:
            for gn, cn in new.alts:
                g0 = And(gs, go, gn)
                if g0 is False:
                    continue
                nomatch = True
                for o in range(len(cs) - len(co) + 1):
                    m = match_at(cs, co, o)
                    out.append((And(g0, nomatch, m), cs[:o] + cn + cs[o + len(co):]))
                    nomatch = And(nomatch, Not(m))
                    if nomatch is False:
                        break
                if nomatch is not False:
                    out.append((And(g0, nomatch), cs))
    return mk(out)


def sym_replace_all_conc(s, old, new):
    """strings.ReplaceAll with concrete, non-empty old and concrete new on a symbolic string: left-to-right scan"""
    s = sym(s)
    out = []
    m = len(old)
    for gs, cs in s.alts:
        n = len(cs)
        front = {0: [(True, ())]}       # scan position -> list of (guard, produced cells)
        for p in range(n + 1):
            lst = front.pop(p, None)
            if not lst:
                continue
            lst = fuse(lst)             # bounds the number of alternatives by the number of produced lengths
            if p == n:
                for g, prod in lst:
                    out.append((And(gs, g), prod))
                continue
            mt = match_at(cs, tuple(old), p) if p + m <= n else False
            for g, prod in lst:
                if mt is not False:
                    front.setdefault(p + m, []).append((And(g, mt), prod + tuple(new)))
                if mt is not True:
                    front.setdefault(p + 1, []).append((And(g, Not(mt)), prod + (cs[p],)))
    return mk(out)


def sym_split1(s, sepb):
    """strings.Split(s, sep) for a one-byte separator. Returns (parts, nparts): parts = list of strings (part k is
    meaningful when k < nparts), nparts = BV64/int"""
    s = sym(s)
    maxparts = s.maxlen + 1
    part_alts = [[] for _ in range(maxparts)]
    nparts_per = []
    for g, cs in s.alts:
        n = len(cs)
        issep = [(x == sepb) if not is_sym(x) else (x == sepb) for x in cs]
        issep = [sb(b) if is_sym(b) else b for b in issep]
        # cnt[j][c]: exactly c separators among cs[0:j]  (Boolean table, c <= j)
        cnt = [[True]]
        for j in range(n):
            row = []
            for c in range(j + 2):
                a = And(cnt[j][c], Not(issep[j])) if c <= j else False
                b = And(cnt[j][c - 1], issep[j]) if c >= 1 else False
                row.append(Or(a, b))
            cnt.append(row)
        np_alt = 1
        for c in range(n + 1):
            np_alt = ite_int(cnt[n][c], c + 1, np_alt, 64)
        nparts_per.append((g, np_alt))
        # maximal separator-free segments [a, b)
        for a in range(n + 1):
            ga = True if a == 0 else issep[a - 1]
            if ga is False:
                continue
            nosep = True
            for b in range(a, n + 1):
                if b > a:
                    nosep = And(nosep, Not(issep[b - 1]))
                    if nosep is False:
                        break
                gb = True if b == n else issep[b]
                seg = And(ga, nosep, gb)
                if seg is False:
                    continue
                for k in range(a + 1):       # the segment starting at a is part number k = #separators before a
                    gk = And(g, seg, cnt[a][k])
                    if gk is not False:
                        part_alts[k].append((gk, cs[a:b]))
    parts = []
    for k in range(maxparts):
        lst = part_alts[k]
        used = sb(Or(*[g for g, _ in lst]))
        if used is not True:
            lst = lst + [(Not(used), ())]
        parts.append(mk(lst))
    acc = nparts_per[-1][1]
    for g, v in reversed(nparts_per[:-1]):
        acc = ite_int(g, v, acc, 64)
    return parts, acc


def cells_to_slice_content(s):
    """string -> (cells tuple of maxlen entries, length) for []byte(s)"""
    s = sym(s)
    L = s.maxlen
    cells = []
    for j in range(L):
        per = [(g, cs[j]) for g, cs in s.alts if len(cs) > j]
        acc = per[-1][1]
        for g, v in reversed(per[:-1]):
            acc = cell_ite(g, v, acc)
        cells.append(acc)
    return tuple(cells), str_len(s)


def slice_to_str(elems, ln):
    """[]byte content (elems tuple, symbolic or concrete length) -> string"""
    if not is_sym(ln):
        if all(not is_sym(x) for x in elems[:ln]):
            return bytes(elems[:ln])
        return SymStr(((True, tuple(elems[:ln])),))
    return mk([(ln == n, tuple(elems[:n])) for n in range(len(elems) + 1)])


def prune_alts(e, st, s, threshold=4):
    """drop the alternatives (lengths) that the path condition excludes: the feasible lengths usually form a
    range, so the largest and the smallest feasible length are found by binary search (solver calls on Or-ed
    guards), the alternatives in between are kept"""
    if not isinstance(s, SymStr) or len(s.alts) <= threshold:
        return s
    alts = list(s.alts)         # sorted by length
    n = len(alts)

    def any_feasible(lo, hi):
        return e.feasible(And(st.pc, Or(*[g for g, c in alts[lo:hi]])))
    # largest feasible index
    lo, hi = 0, n - 1
    while lo < hi:
        mid = (lo + hi + 1) // 2
        if any_feasible(mid, n):
            lo = mid
        else:
            hi = mid - 1
    top = lo
    lo, hi = 0, top
    while lo < hi:
        mid = (lo + hi) // 2
        if any_feasible(0, mid + 1):
            hi = mid
        else:
            lo = mid + 1
    bot = lo
    keep = alts[bot:top + 1]
    if len(keep) == n:
        return s
    e.stats['pruned_alts'] = e.stats.get('pruned_alts', 0) + n - len(keep)
    if len(keep) == 1:
        return mk([(True, keep[0][1])])
    return SymStr(keep)


# ------------------------------------------------------------------ hand models of the repo's constant regexps
def re_onindex_matches(s):
    r"""matches of (\[.*?]).*? : the shortest '[' ... ']' spans, left to right, non overlapping; a '[' starts a match
    only if some ']' follows it (bytes are assumed not to be newlines).
    Returns (matches, count): matches = list of strings (match k meaningful when k < count)"""
    s = sym(s)
    maxm = s.maxlen // 2
    m_alts = [[] for _ in range(maxm)]
    cnt_per = []
    OPEN, CLOSE = ord('['), ord(']')
    for g, cs in s.alts:
        n = len(cs)
        isop = [sb(to_bv(x, 8) == OPEN) if is_sym(x) else x == OPEN for x in cs]
        iscl = [sb(to_bv(x, 8) == CLOSE) if is_sym(x) else x == CLOSE for x in cs]
        state = {0: True}        # scan position -> guard (relative to g)
        counts = []              # counts[k] = guard "at least k+1 matches"
        for k in range(n // 2):
            nxt = {}
            atleast = False
            for p in sorted(state):
                gp = state[p]
                noopen = True
                for i in range(p, n):
                    gi = And(gp, noopen, isop[i])
                    noopen = And(noopen, Not(isop[i]))
                    if gi is not False:
                        noclose = True
                        for j in range(i + 1, n):
                            gj = And(gi, noclose, iscl[j])
                            noclose = And(noclose, Not(iscl[j]))
                            if gj is not False:
                                gj = sb(gj)
                                m_alts[k].append((And(g, gj), cs[i:j + 1]))
                                nxt[j + 1] = Or(nxt.get(j + 1, False), gj)
                                atleast = Or(atleast, gj)
                            if noclose is False:
                                break
                    if noopen is False:
                        break
            state = {p: nm(sb(v)) for p, v in nxt.items() if v is not False}
            counts.append(sb(atleast))
            if not state:
                break
        c = 0
        for k in reversed(range(len(counts))):
            c = ite_int(counts[k], k + 1, c, 64)
        # counts are monotone (k+1 matches implies k matches): number = largest k+1 with counts[k]
        c = 0
        for k in range(len(counts)):
            c = ite_int(counts[k], k + 1, c, 64)
        cnt_per.append((g, c))
    matches = []
    for k in range(maxm):
        lst = m_alts[k]
        used = sb(Or(*[g for g, _ in lst]))
        if used is not True:
            lst = lst + [(Not(used), ())]
        matches.append(mk(lst))
    if not cnt_per:
        return matches, 0
    acc = cnt_per[-1][1]
    for g, v in reversed(cnt_per[:-1]):
        acc = ite_int(g, v, acc, 64)
    return matches, acc


def in_class(x, ranges, singles):
    if not is_sym(x):
        return any(a <= x <= b for a, b in ranges) or x in singles
    return Or(*([And(z3.UGE(x, a), z3.ULE(x, b)) for a, b in ranges] + [x == c for c in singles]))


ALNUM = [(ord('a'), ord('z')), (ord('A'), ord('Z')), (ord('0'), ord('9'))]


def re_index_allowed(s):
    r"""^([a-zA-Z0-9\*\-\._])+$ MatchString"""
    s = sym(s)
    cl = lambda x: in_class(x, ALNUM, b'*-._')
    return sb(Or(*[And(g, *[cl(x) for x in cs]) for g, cs in s.alts if len(cs) >= 1]))


def re_validpath_full(s):
    r"""whole-string match of (/[a-zA-Z0-9:=\-\._[\]]+)+ : starts with '/', no empty segment, all other bytes in class"""
    s = sym(s)
    cl = lambda x: in_class(x, ALNUM, b':=-._[]')
    conds = []
    for g, cs in s.alts:
        n = len(cs)
        if n < 2:
            continue
        sl = [sb(to_bv(x, 8) == ord('/')) if is_sym(x) else x == ord('/') for x in cs]
        c = [sl[0], Not(sl[n - 1])]
        for j in range(1, n):
            c.append(Or(And(sl[j], Not(sl[j - 1])), cl(cs[j])))
        conds.append(And(g, *c))
    return sb(Or(*conds))
