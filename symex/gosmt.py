#!/usr/bin/env python3
"""gosmt: merging (CBMC-style) symbolic executor over go/ssa JSON with a pointer-rich heap.
Back end of the checks in /verif (DESIGN.md section 2.2)."""
import json, sys, time
import z3
from base import *
import strs
from strs import (DecStr, SymStr, ChoiceStr, str_alts, choice_merge, choice_map, choice_bool, choice_int, choice_str, sym, is_str,
                  str_len, str_at, str_eq, str_lt, sym_concat, sym_ite_str, str_slice, sym_index, sym_contains,
                  sym_hasprefix, sym_hassuffix, sym_trim, sym_replace1, sym_replace_all_conc, sym_split1,
                  cells_to_slice_content, slice_to_str, len_gt, mk as mk_str)

sys.setrecursionlimit(20000)
SOLVER_LOGIC = __import__('os').environ.get('VERIF_LOGIC', 'QF_BV')
TRACE = bool(__import__('os').environ.get('VERIF_TRACE'))
INT_BITS = {'int': 64, 'int64': 64, 'uint': 64, 'uint64': 64, 'uintptr': 64, 'int32': 32, 'rune': 32,
            'uint32': 32, 'int16': 16, 'uint16': 16, 'int8': 8, 'uint8': 8, 'byte': 8,
            'untyped int': 64, 'untyped rune': 32}
UNSIGNED = {'uint', 'uint64', 'uintptr', 'uint32', 'uint16', 'uint8', 'byte'}


# ------------------------------------------------------------------ value classes
class Ptr:          # guarded pointer set: alts = ((guard, obj|None, path), ...)
    __slots__ = ('alts',)

    def __init__(self, alts):
        self.alts = tuple(alts)


class MapV:         # alts = ((guard, obj|None), ...)
    __slots__ = ('alts',)

    def __init__(self, alts):
        self.alts = tuple(alts)


class Iface:        # alts = ((guard, dyntype|None, value), ...)
    __slots__ = ('alts',)

    def __init__(self, alts):
        self.alts = tuple(alts)


class SliceV:
    __slots__ = ('obj', 'off', 'len', 'cap', 'nil')

    def __init__(self, obj, off, ln, cap, nil=None):
        self.obj, self.off, self.len, self.cap = obj, off, ln, cap
        self.nil = (obj is None) if nil is None else nil


class FuncV:
    __slots__ = ('name', 'bindings')

    def __init__(self, name, bindings=()):
        self.name, self.bindings = name, tuple(bindings)


class Opaque:
    __slots__ = ('tag',)

    def __init__(self, tag):
        self.tag = tag


class MapObj:       # entries: tuple of (key, guard, value); keys concrete (bytes/int) in this prototype
    __slots__ = ('entries',)

    def __init__(self, entries=()):
        self.entries = tuple(entries)


class ChanObj:      # sequential model: unbounded FIFO; goroutine_park mode: cap 0 = a send completes when its item was received
    __slots__ = ('items', 'closed', 'cap', 'nsent', 'nrecv')

    def __init__(self, items=(), closed=False, cap=None, nsent=0, nrecv=0):
        self.items, self.closed, self.cap, self.nsent, self.nrecv = tuple(items), closed, cap, nsent, nrecv

    def push(self, x):
        return ChanObj(self.items + (x,), self.closed, self.cap, self.nsent + 1, self.nrecv)

    def pop(self):
        return ChanObj(self.items[1:], self.closed, self.cap, self.nsent, self.nrecv + 1)

    def close(self):
        return ChanObj(self.items, True, self.cap, self.nsent, self.nrecv)


class Blocked(Exception):
    pass


class SendParked(Blocked):
    """an unbuffered send by a goroutine: the item is queued, the goroutine resumes AFTER the send once it was received"""


class Park(Exception):
    """a goroutine blocked in its own top-level frame (goroutine_park mode): carries the continuation"""
    def __init__(self, cont):
        Exception.__init__(self, 'park')
        self.cont = cont


class VirtualArr:
    """heap content of a byte slice whose contents are not materialised (only offsets and lengths flow)"""
    __slots__ = ()


class ProtoCell:
    """the single 'byte' of the slice returned by proto.Marshal: remembers the message (round-trip contract);
    alts = ((guard, dyntype|None, value), ...), dyntype None = bytes that do not decode"""
    __slots__ = ('alts',)

    def __init__(self, alts):
        self.alts = tuple(alts)


def protocell_merge(c, a, b):
    la = a.alts if isinstance(a, ProtoCell) else ((True, None, None),)
    lb = b.alts if isinstance(b, ProtoCell) else ((True, None, None),)
    out = [(sb(And(c, g)), dt, v) for g, dt, v in la] + [(sb(And(Not(c), g)), dt, v) for g, dt, v in lb]
    return ProtoCell([x for x in out if x[0] is not False])


class RangeIter:
    __slots__ = ('kind', 'x', 'pos', 'snapshot')

    def __init__(self, kind, x, pos=0):
        self.kind, self.x, self.pos = kind, x, pos
        self.snapshot = None


NILPTR = Ptr(((True, None, ()),))
OPAQUE_ERROR_TYPES = {'*errors.errorString', '*fmt.wrapError'}


def union_alts(c, a_alts, b_alts, keyf):
    """alts of a under c, of b under not c; alternatives with equal key are fused"""
    out = {}
    order = []
    for g, *rest in a_alts:
        k = keyf(rest)
        gg = And(c, g)
        if gg is False:
            continue
        if k in out:
            out[k] = (Or(out[k][0], gg),) + tuple(rest)
        else:
            out[k] = (gg,) + tuple(rest)
            order.append(k)
    nc = Not(c)
    for g, *rest in b_alts:
        k = keyf(rest)
        gg = And(nc, g)
        if gg is False:
            continue
        if k in out:
            out[k] = (Or(out[k][0], gg),) + tuple(out[k][1:])
        else:
            out[k] = (gg,) + tuple(rest)
            order.append(k)
    res = []
    for k in order:
        g = sb(out[k][0])
        if g is False:
            continue
        res.append((g,) + tuple(out[k][1:]))
    return res


class State:
    __slots__ = ('pc', 'env', 'heap', 'defers')

    def __init__(self, pc, env, heap, defers=()):
        self.pc, self.env, self.heap, self.defers = pc, env, heap, defers

    def copy(self):
        return State(self.pc, dict(self.env), dict(self.heap), self.defers)


class NeedFork(Exception):
    def __init__(self, name, n):
        Exception.__init__(self, 'fork %s %d' % (name, n))
        self.name, self.n = name, n


_PROG_CACHE = {}


def load_prog(path):
    if path not in _PROG_CACHE:
        _PROG_CACHE[path] = json.load(open(path))
    return _PROG_CACHE[path]


class Engine:
    def __init__(self, prog):
        self.funcs = prog['funcs']
        self.types = prog['types']
        self.methods = prog.get('methods', {})
        self.implements = prog.get('implements', {})
        self.globals_decl = prog.get('globals', {})
        self.globalinit = prog.get('globalinit', {})
        self.solver = z3.SolverFor(SOLVER_LOGIC) if SOLVER_LOGIC else z3.Solver()
        strs.ENG[0] = self
        self.obligations = []
        self.covers = []
        self.nobj = 0
        self.objtype = {}
        self.global_obj = {}
        self.unwind = 12
        self.prune = True
        self.stats = {'instrs': 0, 'merges': 0, 'feas': 0, 'funcs': {}, 'stubs': {}, 'pruned': 0}
        self.inputs = {}
        self._an = {}
        self.nondet_count = {}
        self.depth = 0
        self.requeue = []
        self.snapshots = {}
        self.goroutines = []
        self.goroutine_park = False   # True: goroutines are coroutines that park at a blocking channel operation and resume later
        self.gcur = None
        self.last_waits = []
        self.select_order = 0
        self.dec_text_unknown = False   # True: the decimal text of a symbolic number is an unknown short text (panic-freedom checks)
        self.uuid_counter = 0
        self.depth_blocked_ok = True
        self.blocked_states = []
        self.regions = {}
        self.fork_values = {}
        self.signed_inputs = set()
        self.redirects = {}
        self.cuts = {}
        self.maporder = 0      # 1: map ranges run over the entries in reverse (Go leaves the order unspecified)
        self.env_vars = {}
        self.params = {}
        self.fnstack = []
        self.preset = {}
        self.havoc_leaves = []
        self.json_docs = []
        self.region_defs = {}
        self.aspects = {}
        self.incoming_md = None
        self.naming = True
        self.ndefs = 0
        self.defs = []

    # ------------------------------------------------------------ types
    def T(self, t):
        return self.types.get(t) or {}

    def under(self, t):
        d = self.T(t)
        while d.get('kind') == 'named':
            t = d['under']
            d = self.T(t)
        return t, d

    def int_info(self, t):
        t, d = self.under(t)
        if d.get('kind') == 'basic' and d['basic'] in INT_BITS:
            return INT_BITS[d['basic']], d['basic'] not in UNSIGNED
        return None, None

    def kind(self, t):
        _, d = self.under(t)
        k = d.get('kind')
        if k == 'basic':
            b = d['basic']
            if b in ('bool', 'untyped bool'):
                return 'bool'
            if b in ('string', 'untyped string'):
                return 'string'
            if b in INT_BITS:
                return 'int'
            if b == 'untyped nil':
                return 'nil'
            if b in ('float64', 'float32', 'untyped float'):
                return 'float'
            return b
        return k

    def zero(self, t):
        k = self.kind(t)
        _, d = self.under(t)
        if k == 'bool':
            return False
        if k == 'string':
            return b''
        if k == 'int':
            return 0
        if k == 'float':
            return 0.0
        if k == 'array':
            return tuple(self.zero(d['elem']) for _ in range(d['len']))
        if k == 'struct':
            return tuple(self.zero(f['type']) for f in d.get('fields') or [])
        if k == 'slice':
            return SliceV(None, 0, 0, 0)
        if k == 'ptr':
            return NILPTR
        if k == 'map':
            return MapV(((True, None),))
        if k == 'interface':
            return Iface(((True, None, None),))
        return None

    # ------------------------------------------------------------ typed merge (c => a)
    def merge_val(self, c, a, b, t, ha=None, hb=None, hn=None):
        if a is b:
            return a
        if c is True:
            return a
        if c is False:
            return b
        if t is None:
            raise Unsupported('merge without type')
        k = self.kind(t)
        _, d = self.under(t)
        if k == 'bool':
            return ite_bool(c, a, b)
        if k == 'int':
            if isinstance(a, ProtoCell) or isinstance(b, ProtoCell):
                return protocell_merge(c, a, b)
            bits, signed = self.int_info(t)
            return ite_int(c, a, b, bits, signed)
        if k == 'string':
            if isinstance(a, Opaque) or isinstance(b, Opaque):
                return a if isinstance(a, Opaque) else b      # opaque text (log / error messages) stays opaque
            if isinstance(a, bytes) and isinstance(b, bytes) and a == b:
                return a
            return sym_ite_str(c, a, b)
        if k == 'ptr' or k == 'UnsafePointer':
            return Ptr(union_alts(c, a.alts, b.alts, lambda r: (r[0], r[1])))
        if k == 'map':
            return MapV(union_alts(c, a.alts, b.alts, lambda r: r[0]))
        if k == 'interface':
            if isinstance(a, Opaque) or isinstance(b, Opaque):
                return a
            return Iface(union_alts(c, a.alts, b.alts, lambda r: (r[0], id(r[1]) if not isinstance(r[1], (int, bytes, type(None))) else r[1])))
        if k == 'struct':
            return tuple(self.merge_val(c, x, y, f['type'], ha, hb, hn) for x, y, f in zip(a, b, d['fields']))
        if k == 'array':
            return tuple(self.merge_val(c, x, y, d['elem'], ha, hb, hn) for x, y in zip(a, b))
        if k == 'tuple':
            return tuple(self.merge_val(c, x, y, et, ha, hb, hn) for x, y, et in zip(a, b, d['elems']))
        if k == 'slice':
            if a.obj == b.obj and (is_sym(a.off) or is_sym(b.off) or is_sym(a.cap) or is_sym(b.cap)):
                # views of an unmaterialised array: offsets / lengths / capacities merge as integers
                return SliceV(a.obj, ite_int(c, a.off, b.off, 64), ite_int(c, a.len, b.len, 64), ite_int(c, a.cap, b.cap, 64),
                              ite_bool(c, a.nil, b.nil))
            if (a.obj is None or b.obj is None) and (isinstance(ha.get(a.obj), VirtualArr) or isinstance(hb.get(b.obj), VirtualArr)):
                # nil slice merged with a view of an unmaterialised array
                o = a.obj if a.obj is not None else b.obj
                return SliceV(o, ite_int(c, a.off, b.off, 64), ite_int(c, a.len, b.len, 64), ite_int(c, a.cap, b.cap, 64),
                              ite_bool(c, a.nil, b.nil))
            if a.obj == b.obj and a.off == b.off:
                return SliceV(a.obj, a.off, ite_int(c, a.len, b.len, 64), max(a.cap, b.cap), ite_bool(c, a.nil, b.nil))
            if hn is None:
                raise Unsupported('slice merge outside state merge')
            la = ha[a.obj][a.off:a.off + a.cap] if a.obj is not None else ()
            lb = hb[b.obj][b.off:b.off + b.cap] if b.obj is not None else ()
            cap = max(len(la), len(lb))
            merged = []
            for j in range(cap):
                if j < len(la) and j < len(lb):
                    merged.append(self.merge_val(c, la[j], lb[j], d['elem'], ha, hb, hn))
                else:
                    merged.append(la[j] if j < len(la) else lb[j])
            self.nobj += 1
            hn[self.nobj] = tuple(merged)
            self.objtype[self.nobj] = None
            return SliceV(self.nobj, 0, ite_int(c, a.len, b.len, 64), cap, ite_bool(c, a.nil, b.nil))
        if k == 'func':
            if a is None:
                return b
            if b is None:
                return a
            if isinstance(a, FuncV) and isinstance(b, FuncV) and a.name == b.name and a.bindings == b.bindings:
                return a
            raise Unsupported('merge of different funcs')
        if isinstance(a, RangeIter) or isinstance(b, RangeIter):
            return a if (isinstance(b, RangeIter) and a.pos == b.pos) else None
        if isinstance(a, Opaque) or isinstance(b, Opaque) or a is None or b is None:
            return a if a is not None else b
        raise Unsupported('merge kind %s' % k)

    def merge_heapcell(self, c, a, b, t, ha, hb, hn):
        if isinstance(a, ChanObj) and isinstance(b, ChanObj):
            if a.items is None or b.items is None or len(a.items) != len(b.items) or a.closed != b.closed or (a.nsent, a.nrecv) != (b.nsent, b.nrecv):
                p = ChanObj((), False)
                p.items = None      # poisoned: queues differ between the merged paths; any later use is unsupported
                return p
            et = self.T(self.under(t)[0]).get('elem') if t else None
            return ChanObj([self.merge_val(c, x, y, et, ha, hb, hn) for x, y in zip(a.items, b.items)], a.closed, a.cap, a.nsent, a.nrecv)
        if isinstance(a, MapObj) and isinstance(b, MapObj):
            return self.merge_mapobj(c, a, b, t, ha, hb, hn)
        if isinstance(t, tuple) and t[0] == 'arr':
            # backing array of a slice: element-wise merge (the shorter side is padded with zero values)
            et = t[1]
            n = max(len(a), len(b))
            z = self.zero(et)
            return tuple(self.merge_val(c, a[j] if j < len(a) else z, b[j] if j < len(b) else z, et, ha, hb, hn) for j in range(n))
        return self.merge_val(c, a, b, t, ha, hb, hn)

    def merge_mapobj(self, c, a, b, t, ha, hb, hn):
        _, d = self.under(t) if t else (None, {})
        et = d.get('elem')
        bd = {k: (g, v) for k, g, v in b.entries}
        out, seen = [], set()
        for k, g, v in a.entries:
            seen.add(k)
            if k in bd:
                g2, v2 = bd[k]
                out.append((k, ite_bool(c, g, g2), self.merge_val(c, v, v2, et, ha, hb, hn)))
            else:
                out.append((k, sb(And(c, g)), v))
        for k, g, v in b.entries:
            if k not in seen:
                out.append((k, sb(And(Not(c), g)), v))
        return MapObj(out)

    def merge_states(self, states, live, regtypes):
        if len(states) == 1:
            return states[0]
        self.stats['merges'] += 1
        acc = states[0]
        for s in states[1:]:
            c = acc.pc
            heap = {}
            for k in set(acc.heap) | set(s.heap):
                a, b = acc.heap.get(k), s.heap.get(k)
                giv = getattr(self, 'global_init_val', {})
                if k in giv:               # lazily materialised global: missing side still has the initial value
                    if k not in acc.heap:
                        a = giv[k]
                    if k not in s.heap:
                        b = giv[k]
                    heap[k] = a if a is b else self.merge_heapcell(c, a, b, self.objtype.get(k), acc.heap, s.heap, heap)
                elif k not in acc.heap:
                    heap[k] = b
                elif k not in s.heap or a is b:
                    heap[k] = a
                else:
                    heap[k] = self.merge_heapcell(c, a, b, self.objtype.get(k), acc.heap, s.heap, heap)
            env = {}
            for k in live:
                if k in acc.env and k in s.env:
                    env[k] = self.merge_val(c, acc.env[k], s.env[k], regtypes.get(k), acc.heap, s.heap, heap)
                elif k in acc.env:
                    env[k] = acc.env[k]
                elif k in s.env:
                    env[k] = s.env[k]
            if acc.defers != s.defers:
                raise Unsupported('merge with different defer stacks')
            acc = State(self.name(sb(Or(acc.pc, s.pc))), env, heap, acc.defers)
        return acc

    # ------------------------------------------------------------ CFG analysis
    def analyse(self, fn):
        name = fn['name']
        if name in self._an:
            return self._an[name]
        blocks = fn['blocks']
        n = len(blocks)
        succs = [b['succs'] or [] for b in blocks]
        preds = [b['preds'] or [] for b in blocks]
        dom = [set(range(n)) for _ in range(n)]
        dom[0] = {0}
        changed = True
        while changed:
            changed = False
            for i in range(1, n):
                ps = [dom[p] for p in preds[i]]
                new = (set.intersection(*ps) | {i}) if ps else {i}
                if new != dom[i]:
                    dom[i], changed = new, True
        loops = {}
        for b in range(n):
            for s in succs[b]:
                if s in dom[b]:
                    body = loops.setdefault(s, {s})
                    stack = [b]
                    while stack:
                        x = stack.pop()
                        if x not in body:
                            body.add(x)
                            stack.extend(preds[x])
        inner = {}
        for h, body in sorted(loops.items(), key=lambda kv: -len(kv[1])):
            for x in body:
                inner[x] = h
        seen, post = set(), []

        def dfs(b):
            seen.add(b)
            ss = list(succs[b])
            h = inner.get(b)
            ss.sort(key=lambda s: 0 if (h is not None and s not in loops[h]) else 1)
            for s in ss:
                if s not in seen:
                    dfs(s)
            post.append(b)
        dfs(0)
        pos = {b: i for i, b in enumerate(reversed(post))}
        # register types + liveness
        rt = {p['n']: p['t'] for p in (fn['params'] or [])}
        rt.update({p['n']: p['t'] for p in (fn['freevars'] or [])})
        use = [set() for _ in range(n)]
        defs = [set() for _ in range(n)]
        phiuse = [dict() for _ in range(n)]   # block -> {pred: set(regs)}

        def regs_of(o, acc):
            if isinstance(o, dict):
                if o.get('k') in ('reg', 'param', 'freevar'):
                    acc.add(o['n'])
                else:
                    for v in o.values():
                        regs_of(v, acc)
            elif isinstance(o, list):
                for v in o:
                    regs_of(v, acc)
        for b in blocks:
            bi = b['index']
            for ins in b['instrs']:
                if 'name' in ins:
                    rt[ins['name']] = ins.get('type')
                if ins['op'] == 'Phi':
                    for p, e in zip(b['preds'], ins['edges']):
                        acc = set()
                        regs_of(e, acc)
                        phiuse[bi].setdefault(p, set()).update(acc)
                    defs[bi].add(ins['name'])
                    continue
                acc = set()
                regs_of({k: v for k, v in ins.items() if k not in ('name', 'type')}, acc)
                use[bi] |= (acc - defs[bi])
                if 'name' in ins:
                    defs[bi].add(ins['name'])
        live_in = [set() for _ in range(n)]
        changed = True
        while changed:
            changed = False
            for bi in range(n - 1, -1, -1):
                out = set()
                for s in succs[bi]:
                    out |= live_in[s]
                    out |= phiuse[s].get(bi, set())
                new = use[bi] | (out - defs[bi])
                if new != live_in[bi]:
                    live_in[bi], changed = new, True
        res = (pos, loops, dom, rt, live_in)
        self._an[name] = res
        return res

    # ------------------------------------------------------------ solver
    def name(self, b):
        """give a path condition a fresh Boolean name whose definition is asserted once in the solver
        (definitional extension: constrains nothing); later queries only mention the name"""
        if not is_sym(b) or not self.naming:
            return b
        if z3.is_const(b) and b.decl().kind() == z3.Z3_OP_UNINTERPRETED:
            return b
        if z3.is_not(b) and z3.is_const(b.arg(0)):
            return b
        self.ndefs += 1
        g = z3.Bool('g!%d' % self.ndefs)
        self.solver.add(g == b)
        self.defs.append((g, b))
        return g

    def expand(self, t, upto=None):
        """inline definitional names (used when a closed-form term over the inputs is needed)"""
        if not is_sym(t) or not self.defs:
            return t
        for g, b in reversed(self.defs[:upto]):
            t = z3.substitute(t, (g, b))
        return t

    def feasible(self, pc):
        if pc is True:
            return True
        if pc is False:
            return False
        self.stats['feas'] += 1
        if self.naming:
            # assumption literals only: conjuncts are named once, the solver stays incremental
            lits = [self.name(c) for c in (pc.children() if z3.is_and(pc) else [pc])]
            return self.solver.check(*lits) != z3.unsat
        self.solver.push()
        self.solver.add(pc)
        r = self.solver.check()
        self.solver.pop()
        return r != z3.unsat

    def upper_bound(self, st, n, limit=64):
        """smallest c such that pc => n <= c (linear search with the solver)"""
        if not is_sym(n):
            return n
        for c in range(limit + 1):
            if not self.feasible(And(st.pc, z3.UGT(n, c))):
                return c
        raise Unsupported('no small upper bound for symbolic size')

    def upper_bound_bin(self, st, n, hi):
        """smallest c in [0, hi] such that pc => n <= c (binary search with the solver); hi must be a valid bound"""
        if not is_sym(n):
            return n
        lo = 0
        while lo < hi:
            mid = (lo + hi) // 2
            if self.feasible(And(st.pc, z3.UGT(n, mid))):
                lo = mid + 1
            else:
                hi = mid
        return lo

    def tighten(self, st, s, threshold=4):
        """drop the alternatives (lengths) of a symbolic string that the path condition excludes"""
        return strs.prune_alts(self, st, s, threshold)

    def curfn(self):
        """short name of the innermost repo function being executed (panic sites are reported per function)"""
        for f in reversed(self.fnstack):
            if '/internal/verif' not in f and '.Verif' not in f:
                return f.replace('github.com/onosproject/onos-config/', '').replace('github.com/onosproject/', '')
        return self.fnstack[-1] if self.fnstack else '?'

    def panic(self, st, cond, what):
        """cond: condition under which the panic happens; continues with pc & !cond"""
        bad = sb(And(st.pc, cond))
        if bad is not False:
            self.obligations.append(('panic:%s@%s' % (what, self.curfn()), bad))
        st.pc = self.name(sb(And(st.pc, Not(cond))))

    # ------------------------------------------------------------ heap
    def new_obj(self, st, val, t):
        self.nobj += 1
        st.heap[self.nobj] = val
        self.objtype[self.nobj] = t
        return self.nobj

    @staticmethod
    def get_path(v, path):
        for i in path:
            v = v[i]
        return v

    @staticmethod
    def set_path(v, path, val):
        if not path:
            return val
        lst = list(v)
        lst[path[0]] = Engine.set_path(lst[path[0]], path[1:], val)
        return tuple(lst)

    def load(self, st, p, t):
        if not isinstance(p, Ptr):
            raise Unsupported('load from %r' % (p,))
        res, resg = None, None
        nilg = False
        for g, obj, path in p.alts:
            if obj is None:
                nilg = Or(nilg, g)
                continue
            v = self.get_path(st.heap[obj], path)
            if res is None:
                res, resg = v, g
            else:
                res = self.merge_val(g, v, res, t, st.heap, st.heap, st.heap)
        if nilg is not False:
            self.panic(st, nilg, 'nil-deref')
        return res

    def store(self, st, p, val, t):
        nilg = False
        single = len(p.alts) == 1
        for g, obj, path in p.alts:
            if obj is None:
                nilg = Or(nilg, g)
                continue
            cur = st.heap[obj]
            if single or g is True:
                newv = val
            else:
                old = self.get_path(cur, path)
                newv = self.merge_val(g, val, old, t, st.heap, st.heap, st.heap)
            st.heap[obj] = self.set_path(cur, path, newv)
        if nilg is not False:
            self.panic(st, nilg, 'nil-deref-store')

    def global_ptr(self, st, name, t):
        if name not in self.global_obj:
            _, d = self.under(t)
            elem = d['elem']
            k = self.kind(elem)
            if name in ('io.EOF', 'context.Canceled', 'context.DeadlineExceeded'):
                # sentinel error: a unique non-nil interface value
                self.nobj += 1
                sobj = self.nobj
                self.objtype[sobj] = None
                self.global_init_val = getattr(self, 'global_init_val', {})
                self.global_init_val[sobj] = (name.encode(),)
                st.heap[sobj] = self.global_init_val[sobj]
                val = Iface(((True, '*errors.errorString', Ptr(((True, sobj, ()),))),))
            elif name in self.globalinit:
                val = Opaque(('regexp', self.globalinit[name]['regexp']))
            elif (self.globals_decl.get(name) or {}).get('harness') or '/internal/verif' in name:   # harness globals: zero initialised
                val = self.zero(elem)
            elif k == 'interface':
                val = Opaque(('global', name))
            else:
                val = Opaque(('global', name))
            self.nobj += 1
            self.global_obj[name] = self.nobj
            self.objtype[self.nobj] = elem
            self.global_init_val = getattr(self, 'global_init_val', {})
            self.global_init_val[self.nobj] = val
        obj = self.global_obj[name]
        if obj not in st.heap:
            st.heap[obj] = self.global_init_val[obj]
        return Ptr(((True, obj, ()),))

    # ------------------------------------------------------------ operands
    def val(self, st, o):
        k = o['k']
        if k in ('reg', 'param', 'freevar'):
            return st.env[o['n']]
        if k == 'const':
            if o.get('nil'):
                return self.zero(o['t'])
            v = o['v']
            if isinstance(v, bool):
                return v
            kk = self.kind(o['t'])
            if kk == 'string':
                if 'vb' in o:
                    return bytes(o['vb'])
                return v.encode('latin1') if isinstance(v, str) else v
            if kk == 'float':
                return float(eval(v)) if isinstance(v, str) else v
            bits, signed = self.int_info(o['t'])
            return wrap(int(v), bits or 64, signed if signed is not None else True)
        if k == 'global':
            return self.global_ptr(st, o['n'], o['t'])
        if k == 'func':
            return FuncV(o['n'])
        if k == 'builtin':
            return FuncV('builtin:' + o['n'])
        raise Unsupported('operand ' + k)

    # ------------------------------------------------------------ calls
    def call_value(self, st, fv, args, ins):
        """call through a function value"""
        if fv is None:
            self.panic(st, True, 'nil-func-call')
            return None
        if isinstance(fv, Opaque):
            return self.opaque_result(ins)
        return self.call(st, fv.name, args, ins, fv.bindings)

    def opaque_result(self, ins):
        t = ins.get('type')
        if not t or self.kind(t) == 'tuple' and not (self.T(t).get('elems')):
            return None
        return self.zero(t)

    def call(self, st, fname, args, ins=None, bindings=(), resume=None):
        if fname in self.redirects:
            self.stats['stubs']['redirect:' + fname] = self.stats['stubs'].get('redirect:' + fname, 0) + 1
            return self.call(st, self.redirects[fname], args, ins)
        if fname in self.cuts:
            self.stats['stubs']['cut:' + fname] = self.stats['stubs'].get('cut:' + fname, 0) + 1
            return CUTS[self.cuts[fname]](self, st, args, ins)
        fn = self.funcs.get(fname)
        has_body = fn is not None and not fn.get('external')
        if fname.startswith('github.com/atomix/go-sdk/pkg/types/scalar.NewEncodeFunc['):
            return FuncV('verif.identity')      # string-kinded keys encode as themselves
        if fname in INTRINSICS and (not has_body or 'verifrt.' in fname or fname in FORCE_STUB):
            self.stats['stubs'][fname] = self.stats['stubs'].get(fname, 0) + 1
            return INTRINSICS[fname](self, st, args, ins)
        if fn is None or fn.get('external'):
            raise Unsupported('external callee without model: ' + fname)
        self.stats['funcs'][fname] = self.stats['funcs'].get(fname, 0) + 1
        if TRACE:
            print('%s> %s' % ('  ' * self.depth, fname.rsplit('/', 1)[-1]), file=sys.stderr, flush=True)
            _t0 = time.time()
        pos, loops, dom, rt, live_in = self.analyse(fn)
        blocks = fn['blocks']
        env = {p['n']: a for p, a in zip(fn['params'] or [], args)}
        env.update({p['n']: a for p, a in zip(fn['freevars'] or [], bindings)})
        caller_env, caller_defers = st.env, st.defers
        start = State(st.pc, env, st.heap, ())
        pending = {0: [start]}
        resume_at = None
        if resume is not None:
            start = State(st.pc, dict(resume['env']), st.heap, resume['defers'])
            pending = {resume['blk']: [start]}
            resume_at = (resume['blk'], resume['idx'])
        backpend, iters, rets = {}, {}, []
        self.depth += 1
        self.fnstack.append(fname)
        while pending or backpend:
            for h in sorted(backpend, key=lambda x: len(loops[x])):
                if any(b in loops[h] and b != h for b in pending):
                    continue
                if any(h2 != h and h2 in loops[h] for h2 in backpend):
                    continue
                pending.setdefault(h, []).extend(backpend.pop(h))
                break
            b = min(pending, key=lambda x: pos[x])
            self.stats['blocks'] = self.stats.get('blocks', 0) + 1
            phidefs = {i['name'] for i in blocks[b]['instrs'] if i['op'] == 'Phi'}
            cur = self.merge_states(pending.pop(b), live_in[b] | phidefs, rt)
            if cur.pc is False:
                continue
            if b in loops:
                iters[b] = iters.get(b, 0) + 1
                if iters[b] > 1 and not self.feasible(cur.pc):
                    continue
                if iters[b] > self.unwind:
                    self.obligations.append(('unwind:%s:%d' % (fname, b), cur.pc))
                    continue
            first = 0
            if resume_at is not None and resume_at[0] == b:
                first, resume_at = resume_at[1], None
            for out in self.exec_block(cur, fn, blocks[b], first):
                if out[0] == 'ret':
                    rets.append((out[1], out[2]))
                    continue
                if out[0] == 'requeue':
                    s2 = out[2]
                    keep = live_in[out[1]] | {i3['name'] for i3 in blocks[out[1]]['instrs'] if i3['op'] == 'Phi'}
                    s2.env = {k: v for k, v in s2.env.items() if k in keep}
                    backpend.setdefault(out[1], []).append(s2)
                    continue
                _, tgt, s2 = out
                tb = blocks[tgt]
                pi = tb['preds'].index(b)
                newvals = {}
                for i2 in tb['instrs']:
                    if i2['op'] != 'Phi':
                        break
                    newvals[i2['name']] = self.val(s2, i2['edges'][pi])
                s2.env = {k: v for k, v in s2.env.items() if k in live_in[tgt]}
                s2.env.update(newvals)
                if tgt in dom[b] and tgt in loops:
                    backpend.setdefault(tgt, []).append(s2)
                else:
                    if tgt in loops:
                        iters[tgt] = 0
                    pending.setdefault(tgt, []).append(s2)
        self.depth -= 1
        self.fnstack.pop()
        if TRACE:
            print('%s< %s %.2fs feas=%d' % ('  ' * self.depth, fname.rsplit('/', 1)[-1], time.time() - _t0, self.stats['feas']), file=sys.stderr, flush=True)
        rtypes = self.T(fn.get('results') or '').get('elems') or []
        if not rets:
            st.pc = False
            return None
        acc_s, acc_v = rets[0]
        for s, v in rets[1:]:
            c = acc_s.pc
            merged = self.merge_states([State(acc_s.pc, {}, acc_s.heap, ()), State(s.pc, {}, s.heap, ())], (), {})
            acc_v = tuple(self.merge_val(c, x, y, t, acc_s.heap, s.heap, merged.heap) for x, y, t in zip(acc_v, v, rtypes))
            acc_s = merged
        st.pc, st.heap = acc_s.pc, acc_s.heap
        st.env, st.defers = caller_env, caller_defers
        if len(rtypes) == 0:
            return None
        return acc_v[0] if len(rtypes) == 1 else acc_v

    def exec_block(self, st, fn, blk, first=0):
        extra = []
        for ins_i, ins in enumerate(blk['instrs']):
            if ins_i < first:
                continue
            op = ins['op']
            self.stats['instrs'] += 1
            if op == 'Phi':
                continue
            if op == 'Jump':
                return extra + [('goto', blk['succs'][0], st)]
            if op == 'If':
                c = sb(self.val(st, ins['cond']))
                outs = []
                for arm, cond in ((0, c), (1, Not(c))):
                    if cond is False:
                        continue
                    s1 = st if cond is True else st.copy()
                    s1.pc = self.name(sb(And(st.pc, cond)))
                    if s1.pc is False:
                        continue
                    if self.prune and cond is not True and not self.feasible(s1.pc):
                        self.stats['pruned'] += 1
                        continue
                    outs.append(('goto', blk['succs'][arm], s1))
                return extra + outs
            if op == 'Return':
                return extra + [('ret', st, tuple(self.val(st, r) for r in ins['results']))]
            if op == 'Panic':
                self.panic(st, True, 'explicit')
                return []
            try:
                r = self.exec_instr(st, ins)
            except Park as pk:
                # a callee of this frame parked: this frame is part of the continuation
                if op != 'Call':
                    raise Unsupported('goroutine parks beneath a %s instruction @@ %s' % (op, fn['name']))
                pk.cont['frames'].append({'fname': fn['name'], 'blk': blk['index'], 'idx': ins_i, 'env': dict(st.env),
                                          'defers': st.defers, 'name': ins.get('name')})
                raise
            except Blocked as _bl:
                if self.goroutine_park and self.gcur is not None:
                    if st.pc is not self.gcur['pc0'] and self.feasible(sb(And(self.gcur['pc0'], Not(st.pc)))):
                        raise Unsupported('goroutine parks under a symbolic condition @@ ' + fn['name'])
                    raise Park({'kind': 'parked', 'heap': st.heap, 'waits': self.last_waits,
                                'frames': [{'fname': fn['name'], 'blk': blk['index'], 'idx': ins_i + (1 if isinstance(_bl, SendParked) else 0), 'env': dict(st.env),
                                            'defers': st.defers, 'name': None}]})
                if self.depth_blocked_ok:
                    self.blocked_states.append(State(st.pc, {}, dict(st.heap), ()))
                    st.pc = False
                    return extra
                raise
            except Unsupported as e:
                msg = str(e)
                if ' @@ ' not in msg:
                    msg = '%s @@ %s block %d: %s' % (msg, fn['name'], blk['index'], json.dumps(ins)[:240])
                else:
                    msg = msg + ' < ' + fn['name'].rsplit('/', 1)[-1]
                raise Unsupported(msg[:1200])
            if 'name' in ins:
                st.env[ins['name']] = r
            if self.requeue:
                rq, self.requeue = self.requeue, []
                extra.extend(('requeue', blk['index'], s) for s in rq)
            if st.pc is False:
                return extra
        raise RuntimeError('block fell through')

    # ------------------------------------------------------------ instructions
    def binop(self, st, ins):
        tok = ins['tok']
        x, y = self.val(st, ins['x']), self.val(st, ins['y'])
        xt = ins['x'].get('t') or ins['y'].get('t')
        k = self.kind(xt)
        if k == 'nil':
            k = self.kind(ins['y'].get('t'))
        if k == 'string':
            if tok in ('==', '!='):
                r = str_eq(x, y)
                return r if tok == '==' else Not(r)
            if tok == '+':
                return self.tighten(st, sym_concat(x, y), 8)
            if tok in ('<', '<=', '>', '>='):
                lt = str_lt(x, y) if tok in ('<', '>=') else str_lt(y, x)
                return lt if tok in ('<', '>') else Not(lt)
            raise Unsupported('string op ' + tok + ' on symbolic strings')
        if k == 'bool':
            if tok == '==':
                return sb(zbool(x) == zbool(y)) if (is_sym(x) or is_sym(y)) else x == y
            if tok == '!=':
                return sb(zbool(x) != zbool(y)) if (is_sym(x) or is_sym(y)) else x != y
            raise Unsupported('bool op ' + tok)
        if k in ('ptr', 'chan'):
            eq = self.ptr_eq(x, y)
            return eq if tok == '==' else Not(eq)
        if k == 'interface':
            eq = self.iface_eq(x, y)
            return eq if tok == '==' else Not(eq)
        if k == 'map':
            isnil = lambda m: Or(*[g for g, o in m.alts if o is None])
            other = x if self.kind(ins['y'].get('t')) == 'nil' or all(o is None for _, o in y.alts) else None
            if other is None:
                other = y
            r = sb(isnil(other))
            return r if tok == '==' else Not(r)
        if k == 'slice':
            other = x if self.kind(ins['y'].get('t')) == 'nil' or ins['y'].get('nil') else y
            r = other.nil
            return r if tok == '==' else Not(r)
        if k == 'func':
            r = (x is None) if y is None else (y is None)
            return r if tok == '==' else (not r)
        if k in ('struct', 'array') and tok in ('==', '!='):
            eq = self.val_eq(x, y, xt)
            return eq if tok == '==' else Not(eq)
        if k != 'int':
            raise Unsupported('binop on kind %s' % k)
        bits, signed = self.int_info(xt)
        if not is_sym(x) and not is_sym(y):
            if tok in ('+', '-', '*'):
                return wrap({'+': x + y, '-': x - y, '*': x * y}[tok], bits, signed)
            if tok in ('==', '!=', '<', '<=', '>', '>='):
                return {'==': x == y, '!=': x != y, '<': x < y, '<=': x <= y, '>': x > y, '>=': x >= y}[tok]
            if tok == '/':
                if y == 0:
                    self.panic(st, True, 'div0')
                    return 0
                q = abs(x) // abs(y)
                return wrap(q if (x < 0) == (y < 0) else -q, bits, signed)
            if tok == '%':
                if y == 0:
                    self.panic(st, True, 'div0')
                    return 0
                q = abs(x) // abs(y)
                return wrap(x - y * (q if (x < 0) == (y < 0) else -q), bits, signed)
            if tok == '&':
                return wrap(x & y, bits, signed)
            if tok == '|':
                return wrap(x | y, bits, signed)
            if tok == '<<':
                return wrap(x << y, bits, signed)
            if tok == '>>':
                return wrap(x >> y, bits, signed)
            raise Unsupported('int op ' + tok)
        a, b = to_bv(x, bits), to_bv(y, bits)
        if tok == '+':
            return si(a + b, signed)
        if tok == '-':
            return si(a - b, signed)
        if tok == '*':
            # x * ite(c, k1, k2) with numerals k1, k2 (e.g. a sign multiplier): distribute, so that no 64x64
            # symbolic multiplication reaches the solver
            for u, w in ((a, b), (b, a)):
                if z3.is_app(w) and w.decl().kind() == z3.Z3_OP_ITE and z3.is_bv_value(w.arg(1)) and z3.is_bv_value(w.arg(2)):
                    return si(z3.If(w.arg(0), u * w.arg(1), u * w.arg(2)), signed)
            return si(a * b, signed)
        if tok == '==':
            return sb(a == b)
        if tok == '!=':
            return sb(a != b)
        if tok in ('<', '<=', '>', '>='):
            if signed:
                return sb({'<': a < b, '<=': a <= b, '>': a > b, '>=': a >= b}[tok])
            return sb({'<': z3.ULT(a, b), '<=': z3.ULE(a, b), '>': z3.UGT(a, b), '>=': z3.UGE(a, b)}[tok])
        if tok in ('/', '%'):
            self.panic(st, sb(b == 0), 'div0')
            if tok == '/':
                return si(a / b if signed else z3.UDiv(a, b), signed)     # z3 bvsdiv truncates like Go
            return si(z3.SRem(a, b) if signed else z3.URem(a, b), signed)
        if tok == '&':
            return si(a & b, signed)
        if tok == '|':
            return si(a | b, signed)
        if tok == '^':
            return si(a ^ b, signed)
        if tok == '&^':
            return si(a & ~b, signed)
        if tok in ('<<', '>>'):
            yt = ins['y'].get('t')
            ybits, _ = self.int_info(yt)
            sh = to_bv(y, ybits or bits)
            if (ybits or bits) < bits:
                sh = z3.ZeroExt(bits - ybits, sh)
            elif (ybits or bits) > bits:
                big = z3.UGE(sh, bits)
                sh = z3.Extract(bits - 1, 0, sh)
                if tok == '<<':
                    return si(z3.If(big, bvc(0, bits), a << sh), signed)
                return si(z3.If(big, (a >> (bits - 1)) if signed else bvc(0, bits), (a >> sh) if signed else z3.LShR(a, sh)), signed)
            if tok == '<<':
                return si(z3.If(z3.UGE(sh, bits), bvc(0, bits), a << sh), signed)
            return si(z3.If(z3.UGE(sh, bits), (a >> (bits - 1)) if signed else bvc(0, bits), (a >> sh) if signed else z3.LShR(a, sh)), signed)
        raise Unsupported('symbolic int op ' + tok)

    def val_eq(self, x, y, t):
        """== on comparable composite values"""
        k = self.kind(t)
        _, d = self.under(t)
        if k == 'struct':
            return sb(And(*[self.val_eq(a, b, f['type']) for a, b, f in zip(x, y, d['fields'])]))
        if k == 'array':
            return sb(And(*[self.val_eq(a, b, d['elem']) for a, b in zip(x, y)]))
        if k == 'bool':
            return sb(zbool(x) == zbool(y)) if (is_sym(x) or is_sym(y)) else x == y
        if k == 'int':
            if not is_sym(x) and not is_sym(y):
                return x == y
            bits, _ = self.int_info(t)
            return sb(to_bv(x, bits) == to_bv(y, bits))
        if k == 'string':
            return str_eq(x, y)
        if k == 'ptr':
            return self.ptr_eq(x, y)
        if k == 'interface':
            return self.iface_eq(x, y)
        raise Unsupported('== on kind %s' % k)

    def ptr_eq(self, x, y):
        nilp = Ptr(((True, None, ()),))
        x = nilp if x is None else x      # the zero value of a channel type
        y = nilp if y is None else y
        conds = []
        for g1, o1, p1 in x.alts:
            for g2, o2, p2 in y.alts:
                if o1 == o2 and p1 == p2:
                    conds.append(And(g1, g2))
        return sb(Or(*conds))

    def iface_eq(self, x, y):
        if isinstance(x, Opaque) or isinstance(y, Opaque):
            return False
        conds = []
        for g1, t1, v1 in x.alts:
            for g2, t2, v2 in y.alts:
                if t1 is None and t2 is None:
                    conds.append(And(g1, g2))
                elif t1 == t2 and t1 is not None:
                    if isinstance(v1, Ptr) and isinstance(v2, Ptr):
                        conds.append(And(g1, g2, self.ptr_eq(v1, v2)))
                    elif v1 is v2:
                        conds.append(And(g1, g2))
                    else:
                        raise Unsupported('iface value compare')
        return sb(Or(*conds))

    def convert(self, v, ft, tt, st=None):
        fk, tk = self.kind(ft), self.kind(tt)
        if fk == 'int' and tk == 'int':
            fb, fs = self.int_info(ft)
            tb, ts = self.int_info(tt)
            if not is_sym(v):
                return wrap(v, tb, ts)
            if tb == fb:
                return v
            if tb < fb:
                return si(z3.Extract(tb - 1, 0, v), ts)
            return si(z3.SignExt(tb - fb, v) if fs else z3.ZeroExt(tb - fb, v), ts)
        if fk == tk:
            return v
        if fk == 'string' and tk == 'slice':
            et = self.T(self.under(tt)[0])['elem']
            if self.int_info(et)[0] != 8:
                raise Unsupported('[]rune(string)')
            if isinstance(v, bytes):
                obj = self.new_obj(st, tuple(v), None)
                return SliceV(obj, 0, len(v), len(v), False)
            cells, ln = cells_to_slice_content(v)
            obj = self.new_obj(st, cells, None)
            return SliceV(obj, 0, ln, len(cells), False)
        if fk == 'slice' and tk == 'string':
            if v.obj is None:
                return b''
            elems = st.heap[v.obj][v.off:v.off + v.cap]
            return slice_to_str(tuple(elems), v.len)
        if fk == 'int' and tk == 'string':
            if is_sym(v):
                raise Unsupported('string(symbolic rune)')
            return chr(v).encode('utf-8')
        raise Unsupported('convert %s -> %s' % (fk, tk))

    def exec_instr(self, st, ins):
        op = ins['op']
        if op == 'BinOp':
            return self.binop(st, ins)
        if op == 'UnOp':
            x = self.val(st, ins['x'])
            tok = ins['tok']
            if tok == '!':
                return Not(x)
            if tok == '*':
                return self.load(st, x, ins['type'])
            if tok == '<-':
                (g, obj, p), = x.alts
                for attempt in range(2):
                    co = st.heap[obj]
                    if co.items is None:
                        raise Unsupported('use of a channel whose queue differs between merged paths')
                    if co.items:
                        st.heap[obj] = co.pop()
                        return (co.items[0], True) if ins['commaok'] else co.items[0]
                    if co.closed:
                        z = self.zero(self.T(ins['type'])['elems'][0]) if ins['commaok'] else self.zero(ins['type'])
                        return (z, False) if ins['commaok'] else z
                    if self.goroutine_park:
                        self.last_waits = [obj]
                        if self.gcur is None and self.run_goroutines(st):
                            return self.exec_instr(st, ins)
                        break
                    if attempt == 0 and self.goroutines:
                        # the receiver would block: let the queued goroutines run (sequential model)
                        gs, self.goroutines = self.goroutines, []
                        for fv, gargs in gs:
                            self.call_value(st, fv, gargs, {'type': None})
                        continue
                    break
                # blocked forever
                raise Blocked()
            if tok == '-':
                bits, signed = self.int_info(ins['type'])
                return wrap(-x, bits, signed) if not is_sym(x) else si(-x, signed)
            raise Unsupported('unop ' + tok)
        if op == 'Extract':
            return self.val(st, ins['x'])[ins['index']]
        if op == 'Alloc':
            return Ptr(((True, self.new_obj(st, self.zero(ins['elem']), ins['elem']), ()),))
        if op == 'FieldAddr':
            x = self.val(st, ins['x'])
            nilg = Or(*[g for g, o, p in x.alts if o is None])
            if nilg is not False:
                self.panic(st, nilg, 'nil-fieldaddr')
            return Ptr([(g, o, p + (ins['field'],)) for g, o, p in x.alts if o is not None])
        if op == 'Field':
            return self.val(st, ins['x'])[ins['field']]
        if op == 'IndexAddr':
            x, i = self.val(st, ins['x']), self.val(st, ins['index'])
            if is_sym(i):
                if isinstance(x, SliceV):
                    alts, inrange = [], False
                    for j in range(x.cap):
                        gj = sb(And(i == j, z3.UGT(to_bv(x.len, 64), j)))
                        if gj is not False:
                            alts.append((gj, x.obj, (x.off + j,)))
                            inrange = Or(inrange, gj)
                    self.panic(st, Not(inrange), 'index-slice')
                    return Ptr(alts)
                if not isinstance(x, Ptr):
                    raise Unsupported('symbolic index into slice')
                alts, inrange = [], False
                for g, o, p in x.alts:
                    if o is None:
                        continue
                    n = len(self.get_path(st.heap[o], p))
                    for j in range(n):
                        gj = sb(And(g, i == j))
                        if gj is not False:
                            alts.append((gj, o, p + (j,)))
                            inrange = Or(inrange, gj)
                self.panic(st, Not(inrange), 'index-array')
                return Ptr(alts)
            if isinstance(x, Ptr):
                return Ptr([(g, o, p + (i,)) for g, o, p in x.alts if o is not None])
            if isinstance(x, SliceV):
                if i >= x.cap or x.obj is None:
                    inb = sb(z3.UGT(to_bv(x.len, 64), i)) if is_sym(x.len) else (i < x.len)
                    self.panic(st, inb if x.obj is not None else True, 'index-slice')
                    st.pc = False
                    return None
                if is_sym(x.len):
                    self.panic(st, sb(z3.ULE(x.len, i)), 'index-slice')
                elif i >= x.len:
                    self.panic(st, True, 'index-slice')
                return Ptr(((True, x.obj, (x.off + i,)),))
            raise Unsupported('indexaddr')
        if op == 'Index':
            x, i = self.val(st, ins['x']), self.val(st, ins['index'])
            if is_str(x):
                n = str_len(x)
                if is_sym(i):
                    self.panic(st, sb(z3.UGE(to_bv(i, 64), to_bv(n, 64))), 'index-string')
                elif is_sym(n):
                    if i < 0:
                        self.panic(st, True, 'index-string')
                        return 0
                    self.panic(st, Not(len_gt(x, i)), 'index-string')
                elif not (0 <= i < n):
                    self.panic(st, True, 'index-string')
                    return 0
                return str_at(x, i)
            if isinstance(x, tuple) and not is_sym(i):
                return x[i]
            raise Unsupported('Index')
        if op == 'Store':
            self.store(st, self.val(st, ins['addr']), self.val(st, ins['val']), ins['val'].get('t'))
            return None
        if op == 'MakeInterface':
            return Iface(((True, ins['xtype'], self.val(st, ins['x'])),))
        if op == 'ChangeInterface' or op == 'ChangeType':
            return self.val(st, ins['x'])
        if op == 'Convert':
            return self.convert(self.val(st, ins['x']), ins['x']['t'], ins['type'], st)
        if op == 'TypeAssert':
            x = self.val(st, ins['x'])
            asserted = ins['asserted']
            to_iface = self.kind(asserted) == 'interface'
            okg, res, nomatch = False, None, False
            if isinstance(x, Opaque):
                raise Unsupported('typeassert on opaque')
            malts = []
            for g, dt, v in x.alts:
                m = dt is not None and (self.implements.get(dt, {}).get(asserted, False) if to_iface else dt == asserted)
                if m:
                    okg = Or(okg, g)
                    malts.append((g, dt, v))
                else:
                    nomatch = Or(nomatch, g)
            if to_iface:
                res = Iface(malts + ([(sb(nomatch), None, None)] if nomatch is not False else [])) if malts else self.zero(asserted)
            else:
                for g, dt, v in malts:
                    res = v if res is None else self.merge_val(g, v, res, asserted, st.heap, st.heap, st.heap)
                if res is None:
                    res = self.zero(asserted)
            if ins['commaok']:
                return (res, sb(okg))
            if nomatch is not False:
                self.panic(st, nomatch, 'typeassert')
            return res
        if op == 'MakeClosure':
            return FuncV(ins['fn']['n'], [self.val(st, b) for b in ins['bindings']])
        if op == 'Call':
            return self.do_call(st, ins['call'], ins)
        if op == 'Defer':
            c = ins['call']
            if 'invoke' in c:
                raise Unsupported('defer invoke')
            st.defers = st.defers + ((self.val(st, c['fn']), tuple(self.val(st, a) for a in c['args'])),)
            return None
        if op == 'RunDefers':
            ds, st.defers = st.defers, ()
            for fv, args in reversed(ds):
                self.call_value(st, fv, list(args), {'type': None})
            return None
        if op == 'MakeChan':
            size = self.val(st, ins['size']) if ins.get('size') else 0
            return Ptr(((True, self.new_obj(st, ChanObj(cap=size if isinstance(size, int) else None), ins['type']), ()),))
        if op == 'Send':
            ch = self.val(st, ins['chan'])
            (g, obj, p), = ch.alts
            co = st.heap[obj]
            if self.goroutine_park and co.closed:
                self.panic(st, True, 'send-on-closed-chan')
            st.heap[obj] = co.push(self.val(st, ins['x']))
            if self.goroutine_park and co.cap == 0:
                # unbuffered: the sender goes on only after a receiver took the item
                ticket = st.heap[obj].nsent
                self.last_waits = [('sent', obj, ticket)]
                if self.gcur is not None:
                    raise SendParked()
                while st.heap[obj].nrecv < ticket:
                    if not self.run_goroutines(st):
                        raise Blocked()
            return None
        if op == 'Go':
            c = ins['call']
            if 'invoke' in c:
                raise Unsupported('go invoke')
            if self.goroutine_park:
                self.goroutines.append({'kind': 'new', 'fv': self.val(st, c['fn']), 'args': [self.val(st, a) for a in c['args']]})
                return None
            self.goroutines.append((self.val(st, c['fn']), [self.val(st, a) for a in c['args']]))
            return None
        if op == 'Select':
            return self.select(st, ins)
        if op == 'MakeMap':
            return MapV(((True, self.new_obj(st, MapObj(), ins['type'])),))
        if op == 'MakeSlice':
            n = self.val(st, ins['len'])
            cp = self.val(st, ins['cap']) if ins.get('cap') else n
            capn = self.upper_bound(st, cp)
            elem = self.T(self.under(ins['type'])[0])['elem']
            obj = self.new_obj(st, tuple(self.zero(elem) for _ in range(capn)), ('arr', elem))
            return SliceV(obj, 0, n, capn, False)
        if op == 'Slice':
            return self.slice(st, ins)
        if op == 'Lookup':
            return self.lookup(st, ins)
        if op == 'MapUpdate':
            return self.mapupdate(st, ins)
        if op == 'Range':
            x = self.val(st, ins['x'])
            return RangeIter('string' if is_str(x) else 'map', x)
        if op == 'Next':
            return self.next(st, ins)
        raise Unsupported('op ' + op)

    def do_call(self, st, c, ins):
        args = [self.val(st, a) for a in c['args']]
        if 'invoke' in c:
            recv = self.val(st, c['recv'])
            if isinstance(recv, Opaque):
                self.stats['stubs']['opaque.' + c['invoke']] = self.stats['stubs'].get('opaque.' + c['invoke'], 0) + 1
                return self.opaque_result(ins)
            results, nilg = [], False
            base_pc = st.pc
            for g, dt, v in recv.alts:
                if dt is None:
                    nilg = Or(nilg, g)
                    continue
                target = self.methods.get(dt, {}).get(c['invoke'])
                s2 = st if len(recv.alts) == 1 else st.copy()
                s2.pc = sb(And(base_pc, g))
                if target is None and c['invoke'] == 'Error' and (isinstance(v, Opaque) or dt in OPAQUE_ERROR_TYPES):
                    r = b'<error text>'      # message of an error created by an intrinsic: only flows into log/error text
                elif target is None:
                    raise Unsupported('no method %s on %s' % (c['invoke'], dt))
                else:
                    r = self.call(s2, target, [v] + args, ins)
                results.append((s2, r))
            if nilg is not False:
                bad = sb(And(base_pc, nilg))
                if bad is not False:
                    self.obligations.append(('panic:nil-invoke@%s' % self.curfn(), bad))
            if not results:
                st.pc = False
                return self.opaque_result(ins)
            if len(results) == 1:
                s2, r = results[0]
                st.pc, st.heap = s2.pc, s2.heap
                return r
            # merge alternatives
            acc_s, acc_r = results[0]
            for s2, r in results[1:]:
                cnd = acc_s.pc
                merged = self.merge_states([State(acc_s.pc, {}, acc_s.heap, ()), State(s2.pc, {}, s2.heap, ())], (), {})
                if ins.get('type') and acc_r is not None:
                    acc_r = self.merge_val(cnd, acc_r, r, ins['type'], acc_s.heap, s2.heap, merged.heap)
                acc_s = merged
            st.pc, st.heap = acc_s.pc, acc_s.heap
            return acc_r
        f = c['fn']
        if f['k'] == 'builtin':
            return self.builtin(st, f['n'], args, ins)
        if f['k'] == 'func':
            return self.call(st, f['n'], args, ins)
        return self.call_value(st, self.val(st, f), args, ins)

    def slice(self, st, ins):
        x = self.val(st, ins['x'])
        lo = self.val(st, ins['low']) if ins['low'] else 0
        if is_str(x):
            hi = self.val(st, ins['high']) if ins['high'] else None
            res, inrange = str_slice(x, lo, hi)
            if inrange is not True:
                self.panic(st, Not(inrange), 'slice-string')
            return self.tighten(st, res, 8)
        if isinstance(x, Ptr):
            (g, obj, path), = x.alts
            arr = self.get_path(st.heap[obj], path)
            hi = self.val(st, ins['high']) if ins['high'] else len(arr)
            if path:
                raise Unsupported('slice of nested array')
            return SliceV(obj, lo, hi - lo, len(arr) - lo)
        if isinstance(x, SliceV):
            hi = self.val(st, ins['high']) if ins['high'] else x.len
            if x.obj is not None and isinstance(st.heap.get(x.obj), VirtualArr):
                # unmaterialised contents: only offsets / lengths flow (64-bit arithmetic), bounds are obligations
                l64, h64, c64 = to_bv(lo, 64), to_bv(hi, 64), to_bv(x.cap, 64)
                self.panic(st, sb(z3.Not(z3.And(z3.ULE(l64, h64), z3.ULE(h64, c64)))), 'slice-bounds')
                return SliceV(x.obj, si(to_bv(x.off, 64) + l64), si(h64 - l64), si(c64 - l64), False)
            if is_sym(lo):
                raise Unsupported('reslice with a symbolic low bound')
            if is_sym(hi):
                # x[lo:hi] with a symbolic high bound: same backing array, symbolic length
                h64 = to_bv(hi, 64)
                self.panic(st, sb(z3.Not(z3.And(z3.ULE(bvc(lo, 64), h64), z3.ULE(h64, bvc(x.cap, 64))))), 'slice-bounds')
                return SliceV(x.obj, x.off + lo, si(h64 - lo), x.cap - lo, x.nil if lo == 0 else False)
            return SliceV(x.obj, x.off + lo, hi - lo, x.cap - lo)
        raise Unsupported('slice')

    def _argtype(self, ins, k):
        return ins['call']['args'][k]['t']

    def builtin(self, st, name, args, ins):
        if name == 'cap':
            x = args[0]
            if isinstance(x, SliceV):
                return x.cap
            raise Unsupported('cap')
        if name == 'len':
            x = args[0]
            if isinstance(x, (bytes, SymStr, ChoiceStr)):
                return str_len(x)
            if isinstance(x, SliceV):
                return x.len
            if isinstance(x, MapV):
                tot = 0
                for g, o in x.alts:
                    if o is None:
                        continue
                    for k, pg, v in st.heap[o].entries:
                        gg = sb(And(g, pg))
                        if gg is True:
                            tot = tot + 1 if not is_sym(tot) else tot + 1
                        elif gg is not False:
                            tot = to_bv(tot, 64) + z3.If(gg, bvc(1, 64), bvc(0, 64))
                return si(tot) if is_sym(tot) else tot
            raise Unsupported('len')
        if name == 'append':
            a, b = args
            if isinstance(b, SliceV) and is_sym(b.len) and isinstance(a, SliceV) and not is_sym(a.len) and a.len == 0:
                return b        # append(empty, src...) with a source of symbolic length: the elements of the source
            if not isinstance(b, SliceV) or is_sym(b.len):
                raise Unsupported('append variadic symbolic')
            elem_t = self.T(self.under(ins['type'])[0])['elem']
            cur = a
            for j in range(b.len):
                elem = st.heap[b.obj][b.off + j]
                cur = self.append1(st, cur, elem, elem_t)
            return cur
        if name == 'copy':
            dst, s2 = args
            if isinstance(s2, (bytes, SymStr, ChoiceStr)):
                raise Unsupported('copy from string')
            n = min(dst.cap, s2.cap)
            dl, sl = to_bv(dst.len, 64), to_bv(s2.len, 64)
            cnt = si(z3.If(z3.ULE(dl, sl), dl, sl))
            elem_t = self.T(self.under(ins['call']['args'][0]['t'])[0])['elem'] if False else None
            et = self.T(self.under(self._argtype(ins, 0))[0])['elem']
            darr = list(st.heap[dst.obj]) if dst.obj is not None else []
            sarr = st.heap[s2.obj] if s2.obj is not None else ()
            for j in range(n):
                g = (j < cnt) if not is_sym(cnt) else sb(z3.UGT(cnt, j))
                darr[dst.off + j] = self.merge_val(g, sarr[s2.off + j], darr[dst.off + j], et, st.heap, st.heap, st.heap)
            if dst.obj is not None:
                st.heap[dst.obj] = tuple(darr)
            return cnt
        if name == 'delete':
            m, key = args
            for g, o in m.alts:
                if o is None:
                    continue
                ents = []
                for k, pg, v in st.heap[o].entries:
                    hit = sb(And(g, self.key_eq(k, key)))
                    if hit is not False:
                        pg = sb(And(pg, Not(hit)))
                    ents.append((k, pg, v))
                st.heap[o] = MapObj(ents)
            return None
        if name == 'close':
            (g, obj, p), = args[0].alts
            if obj is None:
                self.panic(st, True, 'close-nil-chan')
                return None
            co = st.heap[obj]
            if co.closed:
                self.panic(st, True, 'close-closed-chan')
            st.heap[obj] = co.close()
            return None
        raise Unsupported('builtin ' + name)

    # ------------------------------------------------------------ goroutines as coroutines (goroutine_park mode)
    def chan_ready(self, st, w):
        if isinstance(w, tuple):      # ('sent', obj, ticket): an unbuffered send waits for its item to be received
            co = st.heap.get(w[1])
            return co is not None and co.nrecv >= w[2]
        co = st.heap.get(w)
        return co is not None and (bool(co.items) or co.closed)

    def run_goroutines(self, st):
        """let every goroutine that can make progress run until it returns or parks; True if anything ran"""
        progress = False
        while True:
            gs, self.goroutines = self.goroutines, []
            ran = False
            for g in gs:
                if g['kind'] == 'parked' and not any(self.chan_ready(st, o) for o in g['waits']):
                    self.goroutines.append(g)
                    continue
                ran = True
                saved = (self.gcur, self.depth, len(self.fnstack), st.env, st.defers)
                self.gcur = {'depth': self.depth + 1, 'pc0': st.pc}
                try:
                    if g['kind'] == 'new':
                        self.call_value(st, g['fv'], g['args'], {'type': None})
                    else:
                        frames, r = g['frames'], None
                        for k, fr in enumerate(frames):      # innermost frame first
                            if k > 0:
                                if fr['name']:
                                    fr['env'][fr['name']] = r
                                fr = dict(fr, idx=fr['idx'] + 1)
                            try:
                                r = self.call(st, fr['fname'], [], {'type': None}, resume=fr)
                            except Park as pk:
                                pk.cont['frames'].extend(frames[k + 1:])
                                raise
                except Park as pk:
                    st.heap = pk.cont.pop('heap')
                    self.goroutines.append(pk.cont)
                    self.depth = saved[1]
                    del self.fnstack[saved[2]:]
                    st.env, st.defers = saved[3], saved[4]
                finally:
                    self.gcur = saved[0]
            if not ran:
                return progress
            progress = True

    def select(self, st, ins):
        elems = self.T(ins['type'])['elems']
        nrecv = [i for i, s in enumerate(ins['states']) if s['dir'] == 2]

        def result(idx, ok, pos=None, item=None):
            out = [idx, ok]
            for k, si_ in enumerate(nrecv):
                out.append(item if si_ == pos else self.zero(elems[2 + k]))
            return tuple(out)
        while True:
            waits = []
            order = list(enumerate(ins['states']))
            if self.select_order:
                order.reverse()      # Go picks any ready case: 0 = first in source order, 1 = last
            for idx, s in order:
                ch = self.val(st, s['chan'])
                (g, obj, p), = ch.alts
                if obj is None:
                    continue
                co = st.heap[obj]
                if co.items is None:
                    raise Unsupported('use of a channel whose queue differs between merged paths')
                if s['dir'] == 1:
                    if co.closed:
                        self.panic(st, True, 'send-on-closed-chan')
                    st.heap[obj] = co.push(self.val(st, s['send']))
                    return result(idx, False)
                if co.items:
                    st.heap[obj] = co.pop()
                    return result(idx, True, idx, co.items[0])
                if co.closed:
                    return result(idx, False)
                waits.append(obj)
            if not ins['blocking']:
                return result(-1, False)
            if not self.goroutine_park:
                raise Unsupported('blocking select outside goroutine_park mode')
            self.last_waits = waits
            if self.gcur is None and self.run_goroutines(st):
                continue
            raise Blocked()

    def append1(self, st, a, elem, elem_t):
        if a.obj is None:
            old, alen = (), 0
        else:
            old, alen = st.heap[a.obj][a.off:a.off + a.cap], a.len
        cap = len(old) + 1
        zero = self.zero(elem_t)
        new = []
        for j in range(cap):
            if not is_sym(alen):
                new.append(old[j] if j < alen else (elem if j == alen else zero))
            else:
                oldj = old[j] if j < len(old) else zero
                new.append(self.merge_val(sb(z3.UGT(alen, j)), oldj, elem, elem_t, st.heap, st.heap, st.heap))
        obj = self.new_obj(st, tuple(new), ('arr', elem_t))
        return SliceV(obj, 0, alen + 1 if not is_sym(alen) else si(alen + 1), cap)

    # ---- maps: entries (key, guard, value); keys may be symbolic ints/strings
    def key_eq(self, a, b):
        if is_str(a) or is_str(b):
            return str_eq(a, b)
        if not is_sym(a) and not is_sym(b):
            return a == b
        w = a.size() if is_sym(a) else b.size()
        return sb(to_bv(a, w) == to_bv(b, w))

    def lookup(self, st, ins):
        x, key = self.val(st, ins['x']), self.val(st, ins['index'])
        if is_str(x):
            raise Unsupported('string lookup')
        et = self.T(self.under(ins['x']['t'])[0])['elem']
        res, found = self.zero(et), False
        for g, o in x.alts:
            if o is None:
                continue
            for k, pg, v in st.heap[o].entries:
                gg = sb(And(g, pg, self.key_eq(k, key)))
                if gg is False:
                    continue
                res = self.merge_val(gg, v, res, et, st.heap, st.heap, st.heap)
                found = Or(found, gg)
        return (res, sb(found)) if ins['commaok'] else res

    def mapupdate(self, st, ins):
        m, key, v = self.val(st, ins['map']), self.val(st, ins['key']), self.val(st, ins['value'])
        et = self.T(self.under(ins['map']['t'])[0])['elem']
        nilg = Or(*[g for g, o in m.alts if o is None])
        if nilg is not False:
            self.panic(st, nilg, 'nil-map-write')
        for g, o in m.alts:
            if o is None:
                continue
            # invariant: no two present entries have equal keys. A present entry with an equal key is overwritten;
            # otherwise a new entry is appended (absent slots are never revived: with symbolic keys several slots
            # could match and would all become present)
            ents, anypresent = [], False
            for k, pg, ov in st.heap[o].entries:
                hit = sb(And(g, pg, self.key_eq(k, key)))
                if hit is False:
                    ents.append((k, pg, ov))
                    continue
                ents.append((k, pg, self.merge_val(hit, v, ov, et, st.heap, st.heap, st.heap)))
                anypresent = Or(anypresent, hit)
            newg = sb(And(g, Not(anypresent)))
            if newg is not False:
                ents.append((key, newg, v))
            st.heap[o] = MapObj(ents)
        return None

    def next(self, st, ins):
        it = st.env[ins['iter']['n']]
        if it.kind == 'string':
            s, i = it.x, it.pos
            ok = len_gt(s, i)
            if ok is False:
                return (False, 0, 0)
            ch = str_at(s, i)
            st.env[ins['iter']['n']] = RangeIter('string', s, i + 1)
            return (ok, i, ch if not is_sym(ch) else z3.ZeroExt(24, ch))
        # map: iterate the entry list of the (single) map object; guarded entries fork a 'skip' state that is
        # re-queued at this loop header as if the body had run without effect
        m = it.x
        if it.snapshot is None:
            snap = []
            for g0, obj in m.alts:
                if obj is None:
                    continue
                for k, pg, v in st.heap[obj].entries:
                    snap.append((k, g0, obj))
            if self.maporder == 1:
                snap.reverse()
        else:
            snap = it.snapshot
        i = it.pos
        if i >= len(snap):
            return (False, None, None)
        k, g0, obj = snap[i]
        curg, curv = False, None
        for k2, pg2, v2 in st.heap[obj].entries:
            if k2 == k:
                curg, curv = pg2, v2
        nit = RangeIter('map', m, i + 1)
        nit.snapshot = snap
        st.env[ins['iter']['n']] = nit
        g = sb(And(g0, curg))
        if g is True:
            return (True, k, curv)
        if g is not False:
            skip = st.copy()
            skip.pc = sb(And(st.pc, Not(g)))
            if skip.pc is not False:
                self.requeue.append(skip)
            st.pc = sb(And(st.pc, g))
            if st.pc is False:
                return None
            return (True, k, curv)
        # statically absent: advance
        return self.next(st, ins)


# ------------------------------------------------------------------ intrinsics
def nondet(e, st, args, ins, mk):
    name = args[0].decode()
    n = e.nondet_count.get(name, 0)
    e.nondet_count[name] = n + 1
    full = '%s#%d' % (name, n)
    if full in e.preset:
        return e.preset[full]        # debugging aid: concrete value for a nondet input
    v = mk(full)
    e.inputs[full] = v
    return v


def _canon(v):
    """canonical text of a fully concrete value (None if some part is symbolic): identity of an unrendered Sprintf"""
    if isinstance(v, (bytes, bool, int)) or v is None:
        return repr(v)
    if isinstance(v, tuple):
        parts = [_canon(x) for x in v]
        return None if any(p_ is None for p_ in parts) else '(' + ','.join(parts) + ')'
    if isinstance(v, Iface) and len(v.alts) == 1 and v.alts[0][0] is True:
        c = _canon(v.alts[0][2])
        return None if c is None else '%s:%s' % (v.alts[0][1], c)
    return None


def i_sprintf(e, st, args, ins):
    r = _sprintf(e, st, args, ins)
    if isinstance(r, Opaque) and isinstance(args[0], bytes):
        # not rendered (a verb / operand outside the model): equal format and equal concrete operands = equal text
        va = args[1]
        vals = tuple(st.heap[va.obj][va.off + j] for j in range(va.len)) if va.obj is not None else ()
        c = _canon(vals)
        if c is not None:
            return Opaque(('sprintf', args[0], c))
    return r


def _sprintf(e, st, args, ins):
    fmt = args[0]
    va = args[1]
    vals = [st.heap[va.obj][va.off + j] for j in range(va.len)] if va.obj is not None else []
    if not isinstance(fmt, bytes):
        return Opaque('sprintf')
    pieces, i, ai = [], 0, 0      # pieces: string values
    while i < len(fmt):
        ch = fmt[i:i + 1]
        if ch != b'%':
            pieces.append(ch)
            i += 1
            continue
        verb = fmt[i + 1:i + 2]
        i += 2
        if verb == b'%':
            pieces.append(b'%')
            continue
        if ai >= len(vals):
            return Opaque('sprintf')
        iv = vals[ai]
        ai += 1
        if not (isinstance(iv, Iface) and len(iv.alts) == 1):
            return Opaque('sprintf')
        (g, dt, v), = iv.alts
        if verb in (b's', b'v') and is_str(v):
            pieces.append(v)
        elif verb in (b'd', b'v') and isinstance(v, int) and not isinstance(v, bool):
            pieces.append(str(v).encode())
        elif verb == b'd' and fmt == b'%d' and is_sym(v) and z3.is_bv(v) and v.size() == 64 and e.feasible(And(st.pc, z3.UGE(v, 100))):
            # the whole text is the decimal rendering of a full-range 64-bit value: kept abstract (sign, magnitude)
            signed = dt in ('int', 'int64')
            if e.dec_text_unknown:
                return i_base64_encode(e, st, None, None)
            if signed:
                return DecStr(sb(v < 0), si(z3.If(v < 0, -v, v), signed=False))
            return DecStr(False, v)
        elif verb in (b'd', b'v') and is_sym(v) and z3.is_bv(v):
            # bounded decimal rendering (<= 2 digits) + bound obligation
            bad = sb(And(st.pc, z3.UGE(v, 100)))
            if bad is not False:
                e.obligations.append(('bound:itoa<100', bad))
            v8 = z3.Extract(7, 0, v)
            one = z3.ULT(v8, 10)
            d_hi = z3.UDiv(v8, bvc(10, 8)) + 48
            d_lo = z3.URem(v8, bvc(10, 8)) + 48
            pieces.append(mk_str([(one, (d_lo,)), (Not(one), (d_hi, d_lo))]))
        else:
            return Opaque('sprintf')   # only flows into log / error text
    acc = b''
    for p in pieces:
        acc = sym_concat(acc, p)
    return e.tighten(st, acc, 8)


def conc(*vs):
    for v in vs:
        if not isinstance(v, (bytes, int)):
            raise Unsupported('intrinsic needs concrete args')


def i_new_of_result(e, st, a, i):
    """return (pointer to a fresh zero value of the first result's elem type, nil error)"""
    elems = e.T(i['type'])['elems']
    pt = e.T(e.under(elems[0])[0])
    obj = e.new_obj(st, e.zero(pt['elem']), pt['elem'])
    return (Ptr(((True, obj, ()),)), e.zero(elems[1]))


def i_param(e, st, a, i):
    return e.params.get(a[0].decode(), 0)      # a parameter the check does not set is 0 (as in the native face)


def i_json_marshal(e, st, a, i):
    """encoding/json.Marshal(Indent): not executed; the result is an opaque one-cell byte slice that remembers the
    Go value handed to the encoder (harness oracles observe the tree before marshalling)"""
    elems = e.T(i['type'])['elems']
    e.json_docs.append((st.pc, a[0]))
    obj = e.new_obj(st, (ProtoCell(((True, 'json', a[0]),)),), None)
    return (SliceV(obj, 0, 1, 1, False), e.zero(elems[1]))


def i_json_value(e, st, a, i):
    """verifrt.JSONValue(doc): the value remembered by the json.Marshal intrinsic"""
    b = a[0]
    cell = st.heap[b.obj][b.off] if b.obj is not None else None
    if not isinstance(cell, ProtoCell):
        raise Unsupported('JSONValue of bytes that do not come from json.Marshal')
    (g, dt, v), = cell.alts
    return v


REFLECT_KIND = {'bool': 1, 'int': 2, 'int8': 3, 'int16': 4, 'int32': 5, 'int64': 6, 'uint': 7, 'uint8': 8, 'uint16': 9,
                'uint32': 10, 'uint64': 11, 'uintptr': 12, 'float32': 13, 'float64': 14, 'string': 24}


def _reflect_alts(e, rv):
    if not (isinstance(rv, Opaque) and isinstance(rv.tag, tuple) and rv.tag[0] == 'reflect'):
        raise Unsupported('reflect.Value receiver')
    return rv.tag[1].alts


def i_reflect_kind(e, st, a, i):
    res = 0
    for g, dt, v in reversed(_reflect_alts(e, a[0])):
        if dt is None:
            k = 0
        else:
            _, d = e.under(dt)
            kk = d.get('kind')
            k = REFLECT_KIND.get(d.get('basic'), {'map': 21, 'slice': 23, 'ptr': 22, 'struct': 25, 'interface': 20}.get(kk, 26))
        res = ite_int(g, k, res, 64, False)
    return res


def _reflect_scalar(e, st, rv, want, zero, t):
    res = zero
    for g, dt, v in reversed(_reflect_alts(e, rv)):
        if dt is None:
            continue
        if e.kind(dt) == want:
            if want == 'int':
                bits, signed = e.int_info(dt)
                if is_sym(v) and bits < 64:
                    v = z3.SignExt(64 - bits, v) if signed else z3.ZeroExt(64 - bits, v)
            res = e.merge_val(g, v, res, t, st.heap, st.heap, st.heap)
    return res


def i_proto_marshal(e, st, a, i):
    """proto.Marshal(m): an opaque byte slice that remembers the message value (Unmarshal(Marshal(m)) == m)"""
    m = a[0]
    elems = e.T(i['type'])['elems']
    if isinstance(m, Opaque) or len(m.alts) != 1 or m.alts[0][1] is None:
        raise Unsupported('proto.Marshal of a non-single message')
    (g, dt, ptr), = m.alts
    val = e.load(st, ptr, None)
    obj = e.new_obj(st, (ProtoCell(((True, dt, val),)),), None)
    return (SliceV(obj, 0, 1, 1, False), e.zero(elems[1]))


def i_proto_unmarshal(e, st, a, i):
    """proto.Unmarshal(b, dst): succeeds iff b came from proto.Marshal of a message of dst's type (copies the value);
    any other byte slice is treated as undecodable (error). Contract model, see DESIGN.md 2.3."""
    b, dst = a
    errt = i['type']
    (g, dt, ptr), = dst.alts
    err = Iface(((True, '*errors.errorString', Opaque('proto-unmarshal-error')),))
    if is_sym(b.len):
        raise Unsupported('proto.Unmarshal of a slice with symbolic length')
    if b.obj is None or b.len == 0:
        return e.zero(errt)          # empty input decodes to the zero message
    cell = st.heap[b.obj][b.off]
    if not isinstance(cell, ProtoCell):
        return err
    okg = False
    _, pd = e.under(dt)
    for g2, dt2, val in cell.alts:
        if dt2 == dt:
            old = e.load(st, ptr, pd['elem'])
            e.store(st, ptr, e.merge_val(g2, val, old, pd['elem'], st.heap, st.heap, st.heap), None)
            okg = Or(okg, g2)
    okg = sb(okg)
    if okg is True:
        return e.zero(errt)
    if okg is False:
        return err
    return e.merge_val(okg, e.zero(errt), err, errt, st.heap, st.heap, st.heap)


def i_set_aspect(e, st, a, i):
    """(*topo.Object).SetAspect(msg): remembered per object and message type (the Any/JSON encoding is not executed)"""
    optr, msg = a
    (g, dt, ptr), = msg.alts
    (g2, obj, path), = optr.alts
    val = e.load(st, ptr, None)
    e.aspects[(obj, path, dt)] = val
    return e.zero(i['type'])


def i_get_aspect(e, st, a, i):
    optr, dst = a
    (g, dt, ptr), = dst.alts
    errt = i['type']
    err = Iface(((True, '*errors.errorString', Opaque('aspect-not-found')),))
    nilg = Or(*[g2 for g2, obj, path in optr.alts if obj is None])
    if nilg is not False:
        e.panic(st, nilg, 'nil-deref')
    _, pd = e.under(dt)
    okg = False
    for g2, obj, path in optr.alts:
        if obj is None:
            continue
        key = (obj, path, dt)
        if key in e.aspects:
            old = e.load(st, ptr, pd['elem'])
            e.store(st, ptr, e.merge_val(g2, e.aspects[key], old, pd['elem'], st.heap, st.heap, st.heap), None)
            okg = Or(okg, g2)
    nn = [x for x in optr.alts if x[1] is not None]
    if len(nn) == 1 and okg is not False:
        return e.zero(errt)
    okg = sb(okg)
    if okg is True:
        return e.zero(errt)
    if okg is False:
        return err
    return e.merge_val(okg, e.zero(errt), err, errt, st.heap, st.heap, st.heap)


def i_md_new_incoming(e, st, a, i):
    e.incoming_md = a[1]
    return Opaque('ctx')


def i_md_from_incoming(e, st, a, i):
    if e.incoming_md is None:
        return (MapV(((True, None),)), False)
    return (e.incoming_md, True)


def i_nondet_bytes_len(e, st, a, i):
    """verifrt.NondetBytesLen(name, maxLen): a []byte of symbolic length <= maxLen with unmaterialised contents"""
    name, maxlen = a[0].decode(), a[1]
    n = nondet(e, st, [a[0]], i, lambda nm_: z3.BitVec(nm_, 64))
    e.solver.add(z3.ULE(n, maxlen))
    obj = e.new_obj(st, VirtualArr(), None)
    return SliceV(obj, 0, n, n, False)


# ---- math/big.Int: contract model (neg: Bool, mag: BV64) valid for magnitudes < 2^64 (every call site of the repo and
# of onos-api's typed values feeds at most 8 bytes); the struct's `abs` field holds the magnitude term
def _big_get(e, st, p):
    v = e.load(st, p, None)
    neg, mag = v[0], v[1]
    if isinstance(mag, SliceV):
        mag = 0
    return neg, mag


def _big_set(e, st, p, neg, mag):
    e.store(st, p, (neg, mag), None)
    return p


def i_big_newint(e, st, a, i):
    x = a[0]
    pt = e.T(e.under(i['type'])[0])
    obj = e.new_obj(st, e.zero(pt['elem']), pt['elem'])
    p = Ptr(((True, obj, ()),))
    return i_big_setint64(e, st, [p, x], i)


def i_big_setint64(e, st, a, i):
    p, x = a
    if not is_sym(x):
        return _big_set(e, st, p, x < 0, abs(x))
    neg = sb(x < 0)
    return _big_set(e, st, p, neg, si(z3.If(x < 0, -x, x), signed=False))


def i_big_setuint64(e, st, a, i):
    return _big_set(e, st, a[0], False, a[1])


def i_big_setbytes(e, st, a, i):
    p, buf = a
    if buf.obj is None:
        return _big_set(e, st, p, False, 0)
    cells = st.heap[buf.obj][buf.off:buf.off + buf.cap]
    if len(cells) > 8:
        e.obligations.append(('bound:big.Int-magnitude<2^64', sb(And(st.pc, z3.UGT(to_bv(buf.len, 64), 8)) if is_sym(buf.len) else And(st.pc, buf.len > 8))))
        cells = cells[:8] if not is_sym(buf.len) and buf.len <= 8 else cells
    mag = bvc(0, 64)
    for j, c in enumerate(cells[:16]):
        nxt = (mag << 8) | z3.ZeroExt(56, to_bv(c, 8))
        g = (j < buf.len) if not is_sym(buf.len) else sb(z3.UGT(to_bv(buf.len, 64), j))
        mag = nxt if g is True else (mag if g is False else z3.If(g, nxt, mag))
    return _big_set(e, st, p, False, si(mag, signed=False))


def i_big_bytes(e, st, a, i):
    neg, mag = _big_get(e, st, a[0])
    m = to_bv(mag, 64)
    if not is_sym(mag):
        b = mag.to_bytes((mag.bit_length() + 7) // 8, 'big')
        obj = e.new_obj(st, tuple(b), ('arr', 'uint8'))
        return SliceV(obj, 0, len(b), len(b), False)
    # number of significant bytes
    n = bvc(0, 64)
    for k in range(1, 9):
        n = z3.If(z3.UGE(m, bvc(1 << (8 * (k - 1)), 64)), bvc(k, 64), n)
    n = si(n, signed=False)
    if getattr(e, 'big_bytes_split', False) and is_sym(n):
        # case split on the length (the bytes are concatenated / re-sliced by the caller: offsets must be concrete)
        cnt = e.nondet_count.get('big.bytes', 0)
        e.nondet_count['big.bytes'] = cnt + 1
        name = 'big.bytes.len%d' % cnt
        if name not in e.fork_values:
            raise NeedFork(name, 9)
        L = e.fork_values[name]
        st.pc = sb(And(st.pc, n == L))
        cells = [si(z3.Extract(7, 0, z3.LShR(m, bvc(8 * (L - 1 - pos), 64))), signed=False) for pos in range(L)]
        obj = e.new_obj(st, tuple(cells), ('arr', 'uint8'))
        return SliceV(obj, 0, L, L, False)
    cells = []
    for pos in range(8):
        # byte at position pos of the minimal big-endian rendering: (m >> 8*(n-1-pos)) & 0xff
        v = bvc(0, 8)
        for k in range(pos + 1, 9):
            v = z3.If(n == k, z3.Extract(7, 0, z3.LShR(m, bvc(8 * (k - 1 - pos), 64))), v)
        cells.append(si(v, signed=False))
    obj = e.new_obj(st, tuple(cells), ('arr', 'uint8'))
    return SliceV(obj, 0, n, 8, False)


def i_big_neg(e, st, a, i):
    z, x = a
    neg, mag = _big_get(e, st, x)
    nz = (mag != 0) if not is_sym(mag) else sb(to_bv(mag, 64) != 0)
    return _big_set(e, st, z, sb(And(Not(neg), nz)), mag)


def i_big_sign(e, st, a, i):
    neg, mag = _big_get(e, st, a[0])
    if not is_sym(mag) and not is_sym(neg):
        return 0 if mag == 0 else (-1 if neg else 1)
    return si(z3.If(to_bv(mag, 64) == 0, bvc(0, 64), z3.If(zbool(neg), bvc(-1, 64), bvc(1, 64))))


def i_big_int64(e, st, a, i):
    neg, mag = _big_get(e, st, a[0])
    if not is_sym(mag) and not is_sym(neg):
        return wrap(-mag if neg else mag, 64, True)
    m = to_bv(mag, 64)
    return si(z3.If(zbool(neg), -m, m))


def i_big_uint64(e, st, a, i):
    neg, mag = _big_get(e, st, a[0])
    return mag


def i_rand_intn(e, st, a, i):
    """math/rand.Intn(n): a fresh symbolic r with 0 <= r < n (panics for n <= 0 like the original)"""
    n = a[0]
    cnt = e.nondet_count.get('rand.Intn', 0)
    e.nondet_count['rand.Intn'] = cnt + 1
    r = z3.BitVec('rand.Intn#%d' % cnt, 64)
    e.inputs['rand.Intn#%d' % cnt] = r
    e.signed_inputs.add('rand.Intn')
    if not is_sym(n):
        if n <= 0:
            e.panic(st, True, 'rand-intn')
            return 0
        if n == 1:
            return 0
    else:
        e.panic(st, sb(n <= 0), 'rand-intn')
    st.pc = e.name(sb(And(st.pc, r >= 0, r < to_bv(n, 64))))
    return r


def i_havoc_state(e, st, a, i):
    """verifrt.HavocState(ptr, name): fresh symbolic leaves for every scalar of the pointee"""
    iv, name = a[0], a[1].decode()
    (g, dt, ptr), = iv.alts
    _, pd = e.under(dt)

    def mkval(t, path):
        k = e.kind(t)
        _, d = e.under(t)
        if k == 'struct':
            return tuple(mkval(f['type'], path + '.' + f['name']) for f in d['fields'])
        if k == 'array':
            return tuple(mkval(d['elem'], '%s[%d]' % (path, j)) for j in range(d['len']))
        cnt = e.nondet_count.get(path, 0)
        e.nondet_count[path] = cnt + 1
        full = '%s#%d' % (path, cnt)
        if k == 'bool':
            v = z3.Bool(full)
        elif k == 'int':
            bits, signed = e.int_info(t)
            v = z3.BitVec(full, bits)
            if signed:
                e.signed_inputs.add(path)
        else:
            raise Unsupported('HavocState leaf of kind %s at %s' % (k, path))
        e.inputs[full] = v
        e.havoc_leaves.append((full, v))
        return v
    e.store(st, ptr, mkval(pd['elem'], name), None)
    return None


def i_setenv(e, st, a, i):
    e.env_vars[a[0]] = a[1]
    return None


def i_getenv(e, st, a, i):
    return e.env_vars.get(a[0], b'')


def i_fork(e, st, a, i):
    name, n = a[0].decode(), a[1]
    if name not in e.fork_values:
        raise NeedFork(name, n)
    v = e.fork_values[name]
    e.inputs[name + '#0'] = ('fork', v)
    return v


def i_region(e, st, a, i):
    e.regions[a[0].decode()] = a[1]
    e.region_defs[a[0].decode()] = len(e.defs)
    return None


def nondet_signed(e, st, a, i, bits):
    e.signed_inputs.add(a[0].decode())
    return nondet(e, st, a, i, lambda n: z3.BitVec(n, bits))


def i_sort_slice(e, st, a, i):
    """sort.Slice(x, less): bubble sort over the backing array, guarded by the (symbolic) length"""
    (g, dt, sl), = a[0].alts
    less = a[1]
    if sl.obj is None:
        return None
    n = sl.cap
    ln = sl.len
    et = e.T(e.under(dt)[0])['elem']
    for rnd in range(n):
        for j in range(n - 1 - rnd):
            inr = ((j + 1) < ln) if not is_sym(ln) else sb(z3.UGT(ln, j + 1))
            if inr is False:
                continue
            saved_pc = st.pc
            st.pc = sb(And(st.pc, inr))      # less is only called for in-range indexes (assumed side-effect free)
            lt = e.call_value(st, less, [j + 1, j], {'type': 'bool'}) if st.pc is not False else False
            st.pc = saved_pc
            c = sb(And(inr, lt))
            if c is False:
                continue
            arr = list(st.heap[sl.obj])
            x, y = arr[sl.off + j], arr[sl.off + j + 1]
            arr[sl.off + j] = e.merge_val(c, y, x, et, st.heap, st.heap, st.heap)
            arr[sl.off + j + 1] = e.merge_val(c, x, y, et, st.heap, st.heap, st.heap)
            st.heap[sl.obj] = tuple(arr)
    return None


def i_field_uint64(e, st, a, i):
    iv, fname = a[0], a[1].decode()
    (g, dt, v), = iv.alts
    _, d = e.under(dt)
    for k, f in enumerate(d['fields']):
        if f['name'] == fname:
            return v[k]
    raise Unsupported('FieldUint64: no field ' + fname)


def i_field_string(e, st, a, i):
    iv, path = a[0], a[1].decode()
    (g, dt, v), = iv.alts
    for fname in path.split('.'):
        _, d = e.under(dt)
        for k, f in enumerate(d['fields']):
            if f['name'] == fname:
                v, dt = v[k], f['type']
                break
        else:
            raise Unsupported('FieldString: no field ' + fname)
    return v


def _builder_buf(e, st, bptr):
    return e.load(st, Ptr([(g, o, p + (1,)) for g, o, p in bptr.alts if o is not None]), '[]byte')


def _builder_set(e, st, bptr, sl):
    e.store(st, Ptr([(g, o, p + (1,)) for g, o, p in bptr.alts if o is not None]), sl, '[]byte')


def i_builder_writebyte(e, st, a, i):
    buf = _builder_buf(e, st, a[0])
    _builder_set(e, st, a[0], e.append1(st, buf, a[1], 'uint8'))
    return e.zero(i['type']) if i.get('type') else None


def i_builder_writerune(e, st, a, i):
    r = a[1]
    b = (r & 0xff) if not is_sym(r) else si(z3.Extract(7, 0, r), signed=False)
    buf = _builder_buf(e, st, a[0])
    _builder_set(e, st, a[0], e.append1(st, buf, b, 'uint8'))
    return (1, e.zero(e.T(i['type'])['elems'][1]))


def i_re_mustcompile(e, st, a, i):
    """regexp.MustCompile: panics iff the pattern does not compile (decided natively by Go's regexp for every
    concrete alternative of the pattern)"""
    pat = a[0]
    if isinstance(pat, bytes):
        if not go_compiles(pat):
            e.panic(st, True, 'regexp-mustcompile')
            st.pc = False
            return None
        return Opaque(('regexp', pat.decode('latin1')))
    if isinstance(pat, ChoiceStr):
        bad = Or(*[g for g, p_ in pat.alts if not go_compiles(p_)])
        if bad is not False:
            e.panic(st, bad, 'regexp-mustcompile')
        return Opaque(('regexp', pat))
    raise Unsupported('regexp.MustCompile of a fully symbolic pattern (use a pool of concrete alternatives)')


def go_quotemeta(b):
    """regexp.QuoteMeta: a backslash before each of \\.+*?()|[]{}^$"""
    out = bytearray()
    for c in b:
        if c in b'\\.+*?()|[]{}^$':
            out.append(0x5c)
        out.append(c)
    return bytes(out)


def i_re_quotemeta(e, st, a, i):
    s = a[0]
    if isinstance(s, bytes):
        return go_quotemeta(s)
    if isinstance(s, ChoiceStr):
        return choice_str(choice_map(go_quotemeta, s))
    raise Unsupported('regexp.QuoteMeta of a fully symbolic string (use a pool of concrete alternatives)')


def _format_int(e, st, a, signed):
    v, base = a
    if base != 10:
        raise Unsupported('strconv.Format(U)int with a base other than 10')
    if not is_sym(v):
        return str(v).encode()
    if e.dec_text_unknown:
        return i_base64_encode(e, st, a, None)
    if signed:
        return DecStr(sb(v < 0), si(z3.If(v < 0, -v, v), signed=False))
    return DecStr(False, v)


def i_nondet_string(e, st, a, i):
    name, maxlen, alpha = a[0].decode(), a[1], a[2]
    cnt = e.nondet_count.get(name, 0)
    e.nondet_count[name] = cnt + 1
    name = '%s#%d' % (name, cnt)
    cells = tuple(z3.BitVec('str_%s_%d' % (name, j), 8) for j in range(maxlen))
    ln = z3.BitVec('len_' + name, 64)
    e.solver.add(z3.ULE(ln, maxlen))
    for j in range(maxlen):
        e.solver.add(z3.Or([cells[j] == ch for ch in alpha]))
    e.inputs[name] = ('str', cells, ln, maxlen)
    return mk_str([(ln == n, cells[:n]) for n in range(maxlen + 1)])


def i_nondet_string_n(e, st, a, i):
    name, n, alpha = a[0].decode(), a[1], a[2]
    if is_sym(n):
        raise Unsupported('NondetStringN with symbolic length')
    cnt = e.nondet_count.get(name, 0)
    e.nondet_count[name] = cnt + 1
    name = '%s#%d' % (name, cnt)
    cells = tuple(z3.BitVec('str_%s_%d' % (name, j), 8) for j in range(n))
    for j in range(n):
        e.solver.add(z3.Or([cells[j] == ch for ch in alpha]))
    e.inputs[name] = ('str', cells, bvc(n, 64), n)
    return mk_str([(True, cells)])


def i_tolower(e, st, a, i):
    s = a[0]
    if str_alts(s) is not None:
        return choice_str(choice_map(lambda x: x.lower(), s))
    low = lambda x: (x + 32 if 65 <= x <= 90 else x) if not is_sym(x) else z3.If(z3.And(z3.UGE(x, 65), z3.ULE(x, 90)), x + 32, x)
    return mk_str([(g, tuple(low(x) for x in cs)) for g, cs in sym(s).alts])


def i_equalfold(e, st, a, i):
    return str_eq(i_tolower(e, st, [a[0]], i), i_tolower(e, st, [a[1]], i))


def i_split(e, st, a, i):
    """strings.Split(s, sep) for a one-byte concrete separator"""
    s, sep = a
    conc(sep)
    if isinstance(s, bytes):
        parts = s.split(sep) if sep else [s[k:k + 1] for k in range(len(s))]
        obj = e.new_obj(st, tuple(parts), None)
        return SliceV(obj, 0, len(parts), len(parts), False)
    if len(sep) != 1:
        raise Unsupported('Split with multi-byte separator on a symbolic string')
    if isinstance(s, ChoiceStr):
        # every alternative is concrete: split natively, merge the part lists
        res = choice_map(lambda x: x.split(sep), s)
        maxp = max(len(r) for g, r in res)
        parts = []
        for k in range(maxp):
            parts.append(choice_str([(g, r[k] if k < len(r) else b'') for g, r in res]))
        n = choice_int([(g, len(r)) for g, r in res])
        obj = e.new_obj(st, tuple(parts), None)
        return SliceV(obj, 0, n, maxp, False)
    parts, n = sym_split1(s, sep[0])
    parts = [e.tighten(st, p) for p in parts]
    obj = e.new_obj(st, tuple(parts), None)
    return SliceV(obj, 0, n, len(parts), False)


def i_join(e, st, a, i):
    sl, sep = a
    if sl.obj is None:
        return b''
    elems = st.heap[sl.obj][sl.off:sl.off + sl.cap]
    if not is_sym(sl.len) and all(isinstance(x, bytes) for x in elems[:sl.len]) and isinstance(sep, bytes):
        return sep.join(elems[:sl.len])
    acc = b''
    for j, x in enumerate(elems):
        g = (j < sl.len) if not is_sym(sl.len) else sb(z3.UGT(to_bv(sl.len, 64), j))
        if g is False:
            break
        nxt = x if j == 0 else sym_concat(sym_concat(acc, sep), x)
        acc = nxt if g is True else sym_ite_str(g, nxt, acc)
        acc = e.tighten(st, acc, 6)
    return acc


def i_replace(e, st, a, i):
    s, old, new, n = a
    if all(isinstance(x, bytes) for x in (s, old, new)) and not is_sym(n):
        return s.replace(old, new, n)
    if not is_sym(n) and all(str_alts(x) is not None for x in (s, old, new)):
        return choice_str(choice_map(lambda x, y, z: x.replace(y, z, n), s, old, new))
    if is_sym(n) or n != 1:
        raise Unsupported('strings.Replace with n != 1 on symbolic strings')
    return e.tighten(st, sym_replace1(s, old, new), 6)


def i_replaceall(e, st, a, i):
    s, old, new = a
    if all(str_alts(x) is not None for x in (s, old, new)):
        return choice_str(choice_map(lambda x, y, z: x.replace(y, z), s, old, new))
    conc(old, new)
    if not old:
        raise Unsupported('ReplaceAll with empty pattern')
    return e.tighten(st, sym_replace_all_conc(s, old, new), 6)


def i_builder_writestring(e, st, a, i):
    s = a[1]
    buf = _builder_buf(e, st, a[0])
    if isinstance(s, bytes):
        for ch in s:
            buf = e.append1(st, buf, ch, 'uint8')
    else:
        cells, ln = cells_to_slice_content(s)
        for j in range(len(cells)):
            nb = e.append1(st, buf, cells[j], 'uint8')
            g = len_gt(s, j)
            buf = e.merge_val(g, nb, buf, '[]byte', st.heap, st.heap, st.heap)
    _builder_set(e, st, a[0], buf)
    return (str_len(s), e.zero(e.T(i['type'])['elems'][1]))


def i_builder_string(e, st, a, i):
    buf = _builder_buf(e, st, a[0])
    if buf.obj is None:
        return b''
    elems = st.heap[buf.obj][buf.off:buf.off + buf.cap]
    return e.tighten(st, slice_to_str(tuple(elems), buf.len), 8)


def i_indexbyte(e, st, a, i):
    s, c = a
    if isinstance(s, bytes) and not is_sym(c):
        return s.find(bytes([c]))
    return sym_index(s, mk_str([(True, (c,))]))


def i_sort_strings(e, st, a, i):
    """sort.Strings: compare-exchange (bubble) network over the backing array, guarded by the symbolic length"""
    sl = a[0]
    if sl.obj is None:
        return None
    n = sl.cap
    ln = sl.len
    for rnd in range(n):
        for j in range(n - 1 - rnd):
            inr = ((j + 1) < ln) if not is_sym(ln) else sb(z3.UGT(to_bv(ln, 64), j + 1))
            if inr is False:
                continue
            arr = list(st.heap[sl.obj])
            x, y = arr[sl.off + j], arr[sl.off + j + 1]
            c = sb(And(inr, str_lt(y, x)))
            if c is False:
                continue
            arr[sl.off + j] = sym_ite_str(c, y, x)
            arr[sl.off + j + 1] = sym_ite_str(c, x, y)
            st.heap[sl.obj] = tuple(arr)
    return None


def _rx_pattern(rx):
    """pattern of a compiled regexp value: str (constant pattern), bytes or ChoiceStr (dynamic pattern)"""
    if isinstance(rx, Opaque) and isinstance(rx.tag, tuple) and rx.tag[0] == 'regexp':
        return rx.tag[1]
    raise Unsupported('regexp receiver %r' % (rx,))


class GoHelper:
    """native call-out to Go's regexp (bin/gohelper) for concrete arguments; results are cached"""
    proc = None
    cache = {}

    @classmethod
    def call(cls, op, pat, s=b'', n=0):
        import subprocess, os
        if isinstance(pat, str):
            pat = pat.encode('latin1')
        key = (op, pat, s, n)
        if key in cls.cache:
            return cls.cache[key]
        if cls.proc is None or cls.proc.poll() is not None or cls.pid != os.getpid():
            exe = os.path.join(os.path.dirname(os.path.dirname(os.path.abspath(__file__))), 'bin', 'gohelper')
            cls.proc = subprocess.Popen([exe], stdin=subprocess.PIPE, stdout=subprocess.PIPE)
            cls.pid = os.getpid()
        cls.proc.stdin.write((json.dumps({'op': op, 'pat': list(pat), 's': list(s), 'n': n}) + '\n').encode())
        cls.proc.stdin.flush()
        r = json.loads(cls.proc.stdout.readline())
        cls.cache[key] = r
        return r


def go_compiles(pat):
    return GoHelper.call('compile', pat)['ok']


def go_match(pat, s):
    return GoHelper.call('match', pat, s)['match']


def go_findstring(pat, s):
    return bytes(GoHelper.call('findstring', pat, s).get('str') or [])


def go_findall(pat, s):
    return [[bytes(g) for g in row] for row in (GoHelper.call('findall', pat, s).get('rows') or [])]


def i_re_findall(e, st, a, i):
    """(*regexp.Regexp).FindAllStringSubmatch(s, -1): concrete subjects are matched natively (python re on byte
    strings; the repo's patterns use only syntax common to RE2 and re); symbolic subjects use the hand model of
    the constant pattern"""
    rx, s, n = a
    pat = _rx_pattern(rx)

    def rows_for(b):
        return go_findall(pat, b)

    def build(rows):
        if not rows:
            return SliceV(None, 0, 0, 0)
        robjs = []
        for r in rows:
            ro = e.new_obj(st, tuple(r), None)
            robjs.append(SliceV(ro, 0, len(r), len(r), False))
        obj = e.new_obj(st, tuple(robjs), None)
        return SliceV(obj, 0, len(rows), len(rows), False)
    if isinstance(s, bytes):
        return build(rows_for(s))
    if pat != '(\\[.*?]).*?':
        raise Unsupported('no symbolic model for pattern ' + pat)
    if isinstance(s, ChoiceStr):
        res = choice_map(rows_for, s)
        maxr = max(len(r) for g, r in res)
        if maxr == 0:
            return SliceV(None, 0, 0, 0)
        robjs = []
        for k in range(maxr):
            m = choice_str([(g, r[k][0] if k < len(r) else b'') for g, r in res])
            ro = e.new_obj(st, (m, m), None)
            robjs.append(SliceV(ro, 0, 2, 2, False))
        obj = e.new_obj(st, tuple(robjs), None)
        nm_ = choice_int([(g, len(r)) for g, r in res])
        return SliceV(obj, 0, nm_, maxr, sb(to_bv(nm_, 64) == 0) if is_sym(nm_) else nm_ == 0)
    matches, cnt = strs.re_onindex_matches(s)
    if not matches:
        return SliceV(None, 0, 0, 0)
    robjs = []
    for m in matches:
        m = e.tighten(st, m)
        ro = e.new_obj(st, (m, m), None)
        robjs.append(SliceV(ro, 0, 2, 2, False))
    obj = e.new_obj(st, tuple(robjs), None)
    return SliceV(obj, 0, cnt, len(robjs), sb(to_bv(cnt, 64) == 0) if is_sym(cnt) else cnt == 0)


def i_re_findstring(e, st, a, i):
    rx, s = a
    pat = _rx_pattern(rx)

    patb = pat.encode('latin1') if isinstance(pat, str) else pat
    if str_alts(s) is not None and str_alts(patb) is not None:
        return choice_str(choice_map(lambda p_, b: go_findstring(p_, b), patb, s))
    if pat == '(/[a-zA-Z0-9:=\\-\\._[\\]]+)+':
        # only compared with the subject: equal iff the whole subject matches (or the subject is empty);
        # otherwise the real result is a proper substring, modelled by the empty string
        full = Or(strs.re_validpath_full(s), Not(len_gt(s, 0)))
        return sym_ite_str(sb(full), s, b'')
    raise Unsupported('no symbolic model for FindString of ' + pat)


def i_re_matchstring(e, st, a, i):
    rx, s = a
    pat = _rx_pattern(rx)
    patb = pat.encode('latin1') if isinstance(pat, str) else pat
    if str_alts(s) is not None and str_alts(patb) is not None:
        return choice_bool(choice_map(lambda p_, b: go_match(p_, b), patb, s))
    if pat == '^([a-zA-Z0-9\\*\\-\\._])+$':
        return strs.re_index_allowed(s)
    raise Unsupported('no symbolic model for MatchString of ' + pat)


def i_big_newfloat(e, st, a, i):
    """math/big.NewFloat(x): panics with ErrNaN when x is a NaN (floats are concrete in the engine)"""
    x = a[0]
    if is_sym(x):
        raise Unsupported('big.NewFloat of a symbolic float')
    if x != x:
        e.panic(st, True, 'big.NewFloat(NaN)')
        st.pc = False
    return Opaque('big.Float')


def i_bigfloat_gobencode(e, st, a, i):
    obj = e.new_obj(st, (0,), None)
    return (SliceV(obj, 0, 1, 1, False), e.zero(e.T(i['type'])['elems'][1]))


def i_base64_encode(e, st, a, i):
    """(*base64.Encoding).EncodeToString: an unknown short text (only compared with other texts)"""
    e.b64_count = getattr(e, 'b64_count', 0) + 1
    return i_nondet_string(e, st, [b'base64.%d' % e.b64_count, 4, b'AQ=g'], i)


def i_proto_clone(e, st, a, i):
    """proto.Clone(m): a copy of the message behind the same dynamic type (one level deep: nested messages are shared,
    which the callers modelled here never write through); a typed nil pointer stays a typed nil pointer"""
    m = a[0]
    if isinstance(m, Opaque):
        return m
    alts = []
    for g, dt, v in m.alts:
        if dt is None or not isinstance(v, Ptr):
            alts.append((g, dt, v))
            continue
        palts = []
        for g2, o, pth in v.alts:
            if o is None:
                palts.append((g2, None, ()))
            else:
                val = e.load(st, Ptr(((True, o, pth),)), None)
                _, d = e.under(dt)
                palts.append((g2, e.new_obj(st, val, d.get('elem')), ()))
        alts.append((g, dt, Ptr(tuple(palts))))
    return Iface(tuple(alts))


def i_uuid_new(e, st, a, i):
    z = e.zero(i['type'])
    if not e.goroutine_park:
        return z
    e.uuid_counter += 1
    return (e.uuid_counter,) + tuple(z[1:])


INTRINSICS = {
    'sort.Slice': i_sort_slice,
    'math/rand.Intn': i_rand_intn,
    'math/big.NewInt': i_big_newint,
    '(*math/big.Int).SetInt64': i_big_setint64,
    '(*math/big.Int).SetUint64': i_big_setuint64,
    '(*math/big.Int).SetBytes': i_big_setbytes,
    '(*math/big.Int).Bytes': i_big_bytes,
    '(*math/big.Int).Neg': i_big_neg,
    '(*math/big.Int).Sign': i_big_sign,
    '(*math/big.Int).Int64': i_big_int64,
    '(*math/big.Int).Uint64': i_big_uint64,
    '(*regexp.Regexp).FindAllStringSubmatch': i_re_findall,
    '(*regexp.Regexp).FindString': i_re_findstring,
    'regexp.MustCompile': i_re_mustcompile,
    'regexp.QuoteMeta': i_re_quotemeta,
    'strconv.FormatInt': lambda e, st, a, i: _format_int(e, st, a, True),
    'strconv.FormatUint': lambda e, st, a, i: _format_int(e, st, a, False),
    # the metadata attached by metadata.NewIncomingContext (i_md_new_incoming), else none
    'github.com/grpc-ecosystem/go-grpc-middleware/util/metautils.ExtractIncoming': lambda e, st, a, i: e.incoming_md if e.incoming_md is not None else MapV(((True, None),)),
    'github.com/google/uuid.New': i_uuid_new,
    # names of protobuf enum values only flow into log / error text
    '(github.com/openconfig/gnmi/proto/gnmi.GetRequest_DataType).String': lambda e, st, a, i: b'<DataType>',
    '(github.com/openconfig/gnmi/proto/gnmi.Encoding).String': lambda e, st, a, i: b'<Encoding>',
    '(github.com/google/uuid.UUID).String': lambda e, st, a, i: b'00000000-0000-0000-0000-000000000001',
    'github.com/onosproject/onos-lib-go/pkg/uri.WithScheme': lambda e, st, a, i: None,
    'github.com/onosproject/onos-lib-go/pkg/uri.WithOpaque': lambda e, st, a, i: None,
    'github.com/onosproject/onos-lib-go/pkg/uri.NewURI': lambda e, st, a, i: NILPTR,
    '(*github.com/onosproject/onos-lib-go/pkg/uri.URI).String': lambda e, st, a, i: b'uuid:1',
    'reflect.ValueOf': lambda e, st, a, i: Opaque(('reflect', a[0])),
    '(reflect.Value).Kind': i_reflect_kind,
    '(reflect.Value).Int': lambda e, st, a, i: _reflect_scalar(e, st, a[0], 'int', 0, 'int64'),
    '(reflect.Value).Uint': lambda e, st, a, i: _reflect_scalar(e, st, a[0], 'int', 0, 'uint64'),
    '(reflect.Value).Bool': lambda e, st, a, i: _reflect_scalar(e, st, a[0], 'bool', False, 'bool'),
    '(reflect.Value).String': lambda e, st, a, i: _reflect_scalar(e, st, a[0], 'string', b'<non-string Value>', 'string'),
    'encoding/json.MarshalIndent': i_json_marshal,
    'encoding/json.Marshal': i_json_marshal,
    'github.com/gogo/protobuf/proto.Marshal': i_proto_marshal,
    'github.com/gogo/protobuf/proto.Unmarshal': i_proto_unmarshal,
    'github.com/golang/protobuf/proto.Marshal': i_proto_marshal,
    'github.com/golang/protobuf/proto.Unmarshal': i_proto_unmarshal,
    '(*github.com/onosproject/onos-api/go/onos/topo.Object).SetAspect': i_set_aspect,
    'google.golang.org/grpc/metadata.NewIncomingContext': i_md_new_incoming,
    'google.golang.org/grpc/metadata.FromIncomingContext': i_md_from_incoming,
    '(time.Time).Unix': lambda e, st, a, i: 0,
    'google.golang.org/grpc/status.New': lambda e, st, a, i: Ptr(((True, e.new_obj(st, (a[0],), None), ()),)),
    '(*google.golang.org/grpc/internal/status.Status).Err': lambda e, st, a, i: Iface(((True, '*google.golang.org/grpc/internal/status.Error', a[0]),)),
    '(*sync.RWMutex).RLock': lambda e, st, a, i: None,
    '(*sync.RWMutex).RUnlock': lambda e, st, a, i: None,
    '(*sync.RWMutex).Lock': lambda e, st, a, i: None,
    '(*sync.RWMutex).Unlock': lambda e, st, a, i: None,
    '(*sync.Mutex).Lock': lambda e, st, a, i: None,
    '(*sync.Mutex).Unlock': lambda e, st, a, i: None,
    'github.com/onosproject/onos-config/internal/verifrt.FieldUint64': i_field_uint64,
    'github.com/onosproject/onos-config/internal/verifrt.FieldString': i_field_string,
    '(*strings.Builder).WriteByte': i_builder_writebyte,
    '(*strings.Builder).WriteRune': i_builder_writerune,
    '(*strings.Builder).WriteString': i_builder_writestring,
    '(*strings.Builder).String': i_builder_string,
    'strings.IndexByte': i_indexbyte,
    'sort.Strings': i_sort_strings,
    'github.com/onosproject/onos-config/internal/verifrt.NondetString': i_nondet_string,
    'github.com/onosproject/onos-config/internal/verifrt.NondetStringN': i_nondet_string_n,
    'github.com/onosproject/onos-config/internal/verifrt.Param': i_param,
    'github.com/onosproject/onos-config/internal/verifrt.SetEnv': i_setenv,
    'os.Getenv': i_getenv,
    'strings.ToLower': i_tolower,
    'strings.Split': i_split,
    'strings.Contains': lambda e, st, a, i: sym_contains(a[0], a[1]),
    'strings.Index': lambda e, st, a, i: sym_index(a[0], a[1]),
    'google.golang.org/grpc/status.Errorf': lambda e, st, a, i: Iface(((True, '*google.golang.org/grpc/internal/status.Error', Opaque('grpcerr')),)),
    'strings.EqualFold': i_equalfold,
    'strings.LastIndex': lambda e, st, a, i: sym_index(a[0], a[1], last=True),
    'github.com/onosproject/onos-config/pkg/controller/utils.GetOnosConfigID': lambda e, st, a, i: b'gnmi:onos-config',
    '(*github.com/onosproject/onos-api/go/onos/topo.Object).GetAspect': i_get_aspect,

    'github.com/onosproject/onos-config/internal/verifrt.NondetBool': lambda e, st, a, i: nondet(e, st, a, i, lambda n: z3.Bool(n)),
    'github.com/onosproject/onos-config/internal/verifrt.NondetUint64': lambda e, st, a, i: nondet(e, st, a, i, lambda n: z3.BitVec(n, 64)),
    'github.com/onosproject/onos-config/internal/verifrt.NondetInt': lambda e, st, a, i: nondet_signed(e, st, a, i, 64),
    'github.com/onosproject/onos-config/internal/verifrt.NondetInt64': lambda e, st, a, i: nondet_signed(e, st, a, i, 64),
    'github.com/onosproject/onos-config/internal/verifrt.NondetUint32': lambda e, st, a, i: nondet(e, st, a, i, lambda n: z3.BitVec(n, 32)),
    'github.com/onosproject/onos-config/internal/verifrt.NondetByte': lambda e, st, a, i: nondet(e, st, a, i, lambda n: z3.BitVec(n, 8)),
    'github.com/onosproject/onos-config/internal/verifrt.Fork': i_fork,
    'github.com/onosproject/onos-config/internal/verifrt.Region': i_region,
    'github.com/onosproject/onos-config/internal/verifrt.HavocState': i_havoc_state,
    'github.com/onosproject/onos-config/internal/verifrt.JSONValue': i_json_value,
    'github.com/onosproject/onos-config/internal/verifrt.NondetBytesLen': i_nondet_bytes_len,
    'github.com/onosproject/onos-config/internal/verifrt.Symbolic': lambda e, st, a, i: True,
    'github.com/onosproject/onos-config/internal/verifrt.NondetInt32': lambda e, st, a, i: nondet_signed(e, st, a, i, 32),
    'github.com/onosproject/onos-config/internal/verifrt.Yield': lambda e, st, a, i: (e.run_goroutines(st) if e.goroutine_park else None) and None,
    'github.com/onosproject/onos-config/internal/verifrt.Assume': lambda e, st, a, i: setattr(st, 'pc', e.name(sb(And(st.pc, a[0])))),
    'github.com/onosproject/onos-config/internal/verifrt.Assert': lambda e, st, a, i: e.obligations.append((a[1].decode(), sb(And(st.pc, Not(a[0]))))),
    'github.com/onosproject/onos-config/internal/verifrt.Cover': lambda e, st, a, i: (e.covers.append((a[0].decode(), st.pc)), e.snapshots.__setitem__(a[0].decode(), (st.pc, dict(st.heap)))) and None,
    'verif.identity': lambda e, st, a, i: a[0],
    'google.golang.org/protobuf/proto.Clone': i_proto_clone,
    'github.com/golang/protobuf/proto.Clone': i_proto_clone,
    'github.com/gogo/protobuf/proto.Clone': i_proto_clone,
    'math/big.NewFloat': i_big_newfloat,
    '(*encoding/base64.Encoding).EncodeToString': i_base64_encode,
    # the text of a stored float (big.Float gob decoding + %f): an unknown short text, only compared with other texts
    '(*github.com/onosproject/onos-api/go/onos/config/v2.TypedFloat).String': i_base64_encode,
    '(*github.com/onosproject/onos-api/go/onos/config/v2.TypedDouble).String': i_base64_encode,
    '(*math/big.Float).GobEncode': i_bigfloat_gobencode,
    'math.NaN': lambda e, st, a, i: float('nan'),
    'math.IsNaN': lambda e, st, a, i: a[0] != a[0],
    'math.Inf': lambda e, st, a, i: float('inf') if (a[0] if not is_sym(a[0]) else 0) >= 0 else float('-inf'),
    'context.Background': lambda e, st, a, i: Opaque('ctx'),
    'golang.org/x/net/context.Background': lambda e, st, a, i: Opaque('ctx'),
    'context.WithTimeout': lambda e, st, a, i: (Opaque('ctx'), FuncV('verif.noop')),
    'context.WithCancel': lambda e, st, a, i: (Opaque('ctx'), FuncV('verif.noop')),
    'verif.noop': lambda e, st, a, i: None,
    'time.Now': lambda e, st, a, i: e.zero(i['type']),
    'fmt.Sprintf': i_sprintf,
    'fmt.Errorf': lambda e, st, a, i: Iface(((True, '*fmt.wrapError', Opaque('err')),)),
}


INTRINSICS.update({
    'strings.Trim': lambda e, st, a, i: (conc(a[1]), e.tighten(st, sym_trim(a[0], a[1], True, True)))[1],
    'strings.TrimLeft': lambda e, st, a, i: (conc(a[1]), e.tighten(st, sym_trim(a[0], a[1], True, False)))[1],
    'strings.TrimRight': lambda e, st, a, i: (conc(a[1]), e.tighten(st, sym_trim(a[0], a[1], False, True)))[1],
    'strings.TrimPrefix': lambda e, st, a, i: sym_ite_str(sym_hasprefix(a[0], a[1]), str_slice(a[0], str_len(a[1]), None)[0], a[0]),
    'strings.TrimSuffix': lambda e, st, a, i: i_trimsuffix(e, st, a, i),
    'strings.Replace': i_replace,
    'strings.ReplaceAll': i_replaceall,
    'strings.Join': i_join,
    'strings.HasSuffix': lambda e, st, a, i: sym_hassuffix(a[0], a[1]),
    'strings.HasPrefix': lambda e, st, a, i: sym_hasprefix(a[0], a[1]),
    '(*regexp.Regexp).MatchString': i_re_matchstring,
})


def i_trimsuffix(e, st, a, i):
    s, suf = a
    has = sym_hassuffix(s, suf)
    if has is False:
        return s
    n, m = str_len(s), str_len(suf)
    hi = (n - m) if not is_sym(n) and not is_sym(m) else si(to_bv(n, 64) - to_bv(m, 64))
    cut, _ = str_slice(s, 0, hi)
    return sym_ite_str(has, cut, s)


def _field(e, st, ptr, fname):
    """value of field `fname` of the struct a (single-target) pointer points to"""
    (g, obj, path), = ptr.alts
    t = e.objtype.get(obj)
    v = e.get_path(st.heap[obj], path)
    for p_ in path:
        _, d = e.under(t)
        t = d['fields'][p_]['type'] if isinstance(p_, int) and 'fields' in d else d.get('elem')
    _, d = e.under(t)
    for k, f in enumerate(d['fields']):
        if f['name'] == fname:
            return v[k]
    raise Unsupported('no field ' + fname)


def i_atomix_map_by_name(e, st, a, i):
    """(*mapBuilder[K,V]).Get: the primitive is identified by its NAME alone (PrimitiveID{Name: b.options.Name} in the SDK):
    the harness function VerifNamedMap(name) of the calling package returns the stub primitive bound to that name"""
    name = _field(e, st, _field(e, st, a[0], 'options'), 'Name')
    if isinstance(name, Opaque) and isinstance(name.tag, tuple) and name.tag[0] == 'sprintf':
        # a name the Sprintf model does not render (e.g. %s of a struct): same format and operands = same name
        name = b'<' + name.tag[1] + b'|' + name.tag[2].encode() + b'>'
    target = [f for f in e.funcs if f.endswith('.VerifNamedMap')]
    if len(target) != 1:
        raise Unsupported('atomix-map-by-name needs exactly one VerifNamedMap harness function')
    m = e.call(st, target[0], [name], {'type': e.T(e.funcs[target[0]]['results'])['elems'][0]})
    return (m, e.zero(e.T(i['type'])['elems'][1]))


# named cuts: a harness may replace a real callee by one of these models (engine.cuts = {callee: cutname});
# every cut is listed in the evidence as an assumption
CUTS = {
    'nil-bytes-nil-error': lambda e, st, a, i: (SliceV(None, 0, 0, 0), e.zero(e.T(i['type'])['elems'][1])),
    'identity-arg0': lambda e, st, a, i: a[0],
    'new-of-result': i_new_of_result,
    'noop': lambda e, st, a, i: e.opaque_result(i),
    'atomix-map-by-name': i_atomix_map_by_name,
}

FORCE_STUB = {
    '(github.com/openconfig/gnmi/proto/gnmi.GetRequest_DataType).String',
    '(github.com/openconfig/gnmi/proto/gnmi.Encoding).String',
    'github.com/onosproject/onos-config/pkg/controller/utils.GetOnosConfigID',
    '(*github.com/onosproject/onos-api/go/onos/topo.Object).GetAspect',
    '(*github.com/onosproject/onos-api/go/onos/topo.Object).SetAspect',
    'google.golang.org/grpc/metadata.NewIncomingContext',
    'google.golang.org/grpc/metadata.FromIncomingContext',
    'verif.noop',
    '(*github.com/onosproject/onos-api/go/onos/config/v2.TypedFloat).String',
    '(*github.com/onosproject/onos-api/go/onos/config/v2.TypedDouble).String',
}


def run(progfile, entry, unwind=12, prune=True, quiet=False):
    prog = json.load(open(progfile))
    eng = Engine(prog)
    eng.unwind, eng.prune = unwind, prune
    t0 = time.time()
    st = State(True, {}, {}, ())
    eng.call(st, entry, [], {'type': None})
    t1 = time.time()
    nfun = len(eng.stats['funcs'])
    print('symex %.2fs: instrs=%d merges=%d feas=%d pruned=%d funcs=%d stubs=%s obligations=%d heapobjs=%d' % (
        t1 - t0, eng.stats['instrs'], eng.stats['merges'], eng.stats['feas'], eng.stats['pruned'], nfun,
        dict(eng.stats['stubs']), len(eng.obligations), eng.nobj))
    for label, pc in eng.covers:
        print('cover %-12s reachable=%s' % (label, eng.feasible(pc)))
    res = {}
    for label, cond in eng.obligations:
        if cond is False:
            res.setdefault(label, []).append(('unsat', 0, None))
            continue
        eng.solver.push()
        eng.solver.add(cond)
        t = time.time()
        r = eng.solver.check()
        dt = time.time() - t
        model = None
        if r == z3.sat:
            m = eng.solver.model()
            model = {}
            for k, v in eng.inputs.items():
                if isinstance(v, tuple) and v[0] == 'str':
                    n = m.eval(v[2], model_completion=True).as_long()
                    model[k] = bytes(m.eval(v[1][j], model_completion=True).as_long() for j in range(n))
                else:
                    model[k] = m.eval(v, model_completion=True)
        eng.solver.pop()
        res.setdefault(label, []).append((str(r), dt, model))
    for k, v in res.items():
        sat = [x for x in v if x[0] == 'sat']
        print('%-45s %3d queries, %d sat, max %.2fs' % (k, len(v), len(sat), max(x[1] for x in v)))
        if sat and not quiet:
            m = sat[0][2]
            print('     model:', {kk: str(vv) for kk, vv in sorted(m.items()) if str(vv) not in ('0', 'False')})
    print('total %.2fs' % (time.time() - t0))
    return eng, st


if __name__ == '__main__':
    run(sys.argv[1], sys.argv[2], int(sys.argv[3]) if len(sys.argv) > 3 else 12)
