#!/usr/bin/env python3
"""Check driver: export SSA from /repo's working tree, run the symbolic executor on harness entries,
decide every obligation with the solver, replay models natively, write evidence.

Every property module (props/cXX.py) describes its harness entries; this file does the rest.
See /verif/DESIGN.md sections 2 and 3."""
import json, os, sys, time, shutil, subprocess, hashlib, traceback, multiprocessing, signal

VERIF = os.path.dirname(os.path.dirname(os.path.abspath(__file__)))
REPO = os.environ.get('VERIF_REPO', '/repo')
sys.path.insert(0, os.path.join(VERIF, 'symex'))
MOD = 'github.com/onosproject/onos-config'
GOENV = dict(os.environ, GOFLAGS='-mod=mod', GOPROXY='off', GOSUMDB='off', GOTOOLCHAIN='local')
NCPU = min(16, os.cpu_count() or 4)
# packages whose function bodies are executed symbolically (everything else is an intrinsic or unsupported)
DEFAULT_ALLOW = [
    'github.com/onosproject/onos-config/', 'github.com/onosproject/onos-api/',
    'github.com/onosproject/onos-lib-go/pkg/errors', 'github.com/onosproject/onos-lib-go/pkg/controller',
    'github.com/openconfig/gnmi/proto/', 'github.com/openconfig/gnmi/client',
    'github.com/grpc-ecosystem/go-grpc-middleware/util/metautils',
    'google.golang.org/grpc/metadata', 'google.golang.org/grpc/status', 'google.golang.org/grpc/codes',
    'google.golang.org/grpc/internal/status', 'github.com/atomix/atomix/api/errors',
    'github.com/atomix/go-sdk/pkg/primitive',
]


def log(*a):
    print(*a, flush=True)


class Ctx:
    def __init__(self, pid, tier, seed=0):
        self.pid, self.tier, self.seed = pid, tier, seed
        self.t0 = time.time()
        self.out = os.path.join(VERIF, 'out', '%s-%s-%d' % (pid, tier, os.getpid()))
        shutil.rmtree(self.out, ignore_errors=True)
        os.makedirs(self.out)
        # scratch go.mod so that the go tool never rewrites /repo/go.mod
        shutil.copy(os.path.join(REPO, 'go.mod'), os.path.join(self.out, 'go.mod'))
        shutil.copy(os.path.join(REPO, 'go.sum'), os.path.join(self.out, 'go.sum'))
        self.modfile = os.path.join(self.out, 'go.mod')
        self.known = load_known(pid)
        self.results = []          # per-harness result dicts
        self.violations = []       # (label, replay path)
        self.known_lines = []
        self.notes = []
        self.assumptions = []
        self.replays_ok = 0
        self.replays_run = 0
        self.exports = []
        self.seen = set()
        self.only = [x for x in os.environ.get('VERIF_ONLY', '').split(',') if x]
        self.cover_budget = {}

    def cleanup(self):
        shutil.rmtree(self.out, ignore_errors=True)

    # ---------------------------------------------------------------- build / export
    def ensure_exporter(self):
        exe = os.path.join(VERIF, 'bin', 'ssaexport')
        src = os.path.join(VERIF, 'engine', 'ssaexport')
        if not os.path.exists(exe) or os.path.getmtime(exe) < os.path.getmtime(os.path.join(src, 'main.go')):
            os.makedirs(os.path.dirname(exe), exist_ok=True)
            subprocess.run(['go', 'build', '-o', exe, '.'], cwd=src, env=GOENV, check=True)
        hexe = os.path.join(VERIF, 'bin', 'gohelper')
        hsrc = os.path.join(VERIF, 'engine', 'gohelper')
        if not os.path.exists(hexe) or os.path.getmtime(hexe) < os.path.getmtime(os.path.join(hsrc, 'main.go')):
            subprocess.run(['go', 'build', '-o', hexe, '.'], cwd=hsrc, env=GOENV, check=True)
        return exe

    def overlay(self, files, native=False, name='overlay'):
        """files: {path relative to /repo: path relative to /verif/harness}"""
        rep = {}
        rt = 'rt/verifrt_native.go' if native else 'rt/verifrt_sym.go'
        rep[os.path.join(REPO, 'internal/verifrt/verifrt.go')] = os.path.join(VERIF, 'harness', rt)
        for v, r in files.items():
            if '|' in r:                     # "symbolic-face|native-face" of one harness file
                r = r.split('|')[1 if native else 0]
            rep[os.path.join(REPO, v)] = r if os.path.isabs(r) else os.path.join(VERIF, 'harness', r)
        p = os.path.join(self.out, name + ('-native' if native else '') + '.json')
        json.dump({'Replace': rep}, open(p, 'w'), indent=1)
        return p

    def export(self, files, pkgs, roots, allow=None, tag='prog'):
        exe = self.ensure_exporter()
        ov = self.overlay(files, name=tag)
        outp = os.path.join(self.out, tag + '.json')
        cmd = [exe, '-overlay', ov, '-modfile', self.modfile, '-repo', REPO, '-o', outp, '-pkgs', ','.join(pkgs)]
        cmd += ['-allow', ','.join(allow or DEFAULT_ALLOW)]
        cmd += roots
        t = time.time()
        r = subprocess.run(cmd, env=GOENV, capture_output=True, text=True)
        if r.returncode != 0:
            raise RuntimeError('ssaexport failed:\n' + r.stdout[-3000:] + r.stderr[-3000:])
        self.exports.append({'roots': roots, 'seconds': round(time.time() - t, 1)})
        return outp

    # ---------------------------------------------------------------- replay
    def replay(self, files, pkgdir, pkgpath, entry, inputs, timeout=180, params=None, tagname='replay', testdir=None):
        """run harness `entry` natively with the given inputs; returns the parsed VERIF-RESULT dict (or None)"""
        self.replays_run += 1
        n = self.replays_run
        alias = 'hpkg'
        # a virtual (overlay-only) package cannot be tested itself: the test goes into an existing directory
        tdir = testdir or pkgdir
        tpkg = self.pkgname(files, tdir) if testdir is None else self.real_pkgname(tdir)
        test = ('//go:build verif\n\npackage %s_test\n\nimport (\n\t"testing"\n\n\t"%s/internal/verifrt"\n\t%s "%s"\n)\n\n'
                'func TestVerifReplay(t *testing.T) {\n\tverifrt.RunReplay(map[string]func(){"%s": %s.%s})\n}\n'
                % (tpkg, MOD, alias, pkgpath, entry, alias, entry))
        tf = os.path.join(self.out, 'replay_test_%d.go' % n)
        open(tf, 'w').write(test)
        f2 = dict(files)
        f2[os.path.join(tdir, 'zz_verif_replay_test.go')] = tf
        ov = self.overlay(f2, native=True, name='%s%d' % (tagname, n))
        rfile = os.path.join(self.out, 'replay_%d.json' % n)
        json.dump({'entry': entry, 'inputs': inputs, 'params': params or {}}, open(rfile, 'w'))
        cmd = ['go', 'test', '-modfile=' + self.modfile, '-tags', 'verif', '-vet=off', '-count=1', '-overlay', ov,
               '-run', '^TestVerifReplay$', '-v', './' + tdir]
        env = dict(GOENV, VERIF_REPLAY=rfile)
        try:
            r = subprocess.run(cmd, cwd=REPO, env=env, capture_output=True, text=True, timeout=timeout)
        except subprocess.TimeoutExpired:
            return {'timeout': True, 'failed': [], 'covers': [], 'panic': '', 'regions': []}
        if os.environ.get('VERIF_DUMP'):
            print('\n'.join(l for l in r.stdout.splitlines() if l.startswith(('VERIF-DUMP', '  '))))
        for line in r.stdout.splitlines():
            if line.startswith('VERIF-RESULT '):
                res = json.loads(line[len('VERIF-RESULT '):])
                for k in ('failed', 'covers', 'regions', 'missing_inputs'):
                    res[k] = res.get(k) or []
                return res
        self.notes.append('replay produced no result: ' + (r.stdout[-1500:] + r.stderr[-1500:]))
        return None

    def real_pkgname(self, d):
        import re, glob
        for fn in sorted(glob.glob(os.path.join(REPO, d, '*.go'))):
            if fn.endswith('_test.go'):
                continue
            m = re.search(r'^package\s+(\w+)', open(fn).read(), re.M)
            if m:
                return m.group(1)
        return d.rsplit('/', 1)[-1]

    def pkgname(self, files, pkgdir):
        """Go package name of the harness package = the `package` clause of an overlay file in that directory"""
        import re
        for v, r in files.items():
            if os.path.dirname(v) == pkgdir:
                rp = r if os.path.isabs(r) else os.path.join(VERIF, 'harness', r)
                m = re.search(r'^package\s+(\w+)', open(rp).read(), re.M)
                if m:
                    return m.group(1)
        return pkgdir.rsplit('/', 1)[-1].replace('-', '_')

    def keep_replay(self, label, entry, inputs, extra=None):
        rdir = os.environ.get('VERIF_REPLAY_DIR') or os.path.join(VERIF, 'replays')
        os.makedirs(rdir, exist_ok=True)
        h = hashlib.sha1(json.dumps([entry, label, inputs], sort_keys=True).encode()).hexdigest()[:10]
        p = os.path.join(rdir, '%s-%s-%s.json' % (self.pid, entry, h))
        d = {'property': self.pid, 'entry': entry, 'label': label, 'inputs': inputs}
        if extra:
            d.update(extra)
        # generated files of the scratch directory (constants of a transition-system configuration) travel with the replay
        inline = {}
        for k, v in (d.get('files') or {}).items():
            if isinstance(v, str) and os.path.isabs(v) and v.startswith(self.out) and os.path.exists(v):
                inline[k] = open(v).read()
        if inline:
            d['inline_files'] = inline
        json.dump(d, open(p, 'w'), indent=1, sort_keys=True)
        return p


def load_known(pid):
    p = os.path.join(VERIF, 'known_findings.json')
    if not os.path.exists(p):
        return []
    return [k for k in json.load(open(p)).get('findings', []) if k.get('property') == pid]


# -------------------------------------------------------------------- symbolic run of one harness case (worker)
def _model_inputs(eng, m, z3, gosmt):
    out = {}
    for k, v in eng.inputs.items():
        if isinstance(v, tuple) and v[0] == 'str':
            n = m.eval(v[2], model_completion=True).as_long()
            out[k] = [m.eval(v[1][j], model_completion=True).as_long() for j in range(n)]
        elif isinstance(v, tuple) and v[0] == 'fork':
            out[k] = v[1]
        elif gosmt.is_sym(v):
            x = m.eval(v, model_completion=True)
            if z3.is_bool(x):
                out[k] = z3.is_true(x)
            elif z3.is_bv_value(x):
                out[k] = x.as_signed_long() if k.split('#')[0] in eng.signed_inputs else x.as_long()
            else:
                out[k] = str(x)
        else:
            out[k] = v
    return out


def run_case(job):
    """job: dict(prog, entry, unwind, forks, timeout_ms, known_regions{label:[names]}, opts)
    returns plain-data result"""
    import z3, gosmt
    t0 = time.time()
    res = {'entry': job['entry'], 'forks': job.get('forks') or {}, 'obligations': [], 'covers': [], 'error': None,
           'needfork': None, 'hid': job.get('hid')}
    try:
        prog = gosmt.load_prog(job['prog'])
        eng = gosmt.Engine(prog)
        eng.unwind = job.get('unwind', 16)
        eng.fork_values = dict(job.get('forks') or {})
        for k, v in (job.get('opts') or {}).items():
            setattr(eng, k, v)
        st = gosmt.State(True, {}, {}, ())
        try:
            eng.call(st, job['entry'], [], {'type': None})
        except gosmt.NeedFork as nf:
            res['needfork'] = (nf.name, nf.n)
            return res
        # activations that can never be resumed (blocked on a channel forever): run the harness's VerifOnBlocked there
        onb = job['entry'].rsplit('.', 1)[0] + '.VerifOnBlocked'
        for bst in list(eng.blocked_states):
            if onb in eng.funcs:
                eng.depth_blocked_ok = False
                eng.call(gosmt.State(bst.pc, {}, bst.heap, ()), onb, [], {'type': None})
            else:
                eng.obligations.append(('blocked-forever', bst.pc))
        res['symex_s'] = round(time.time() - t0, 2)
        res['stats'] = {'instrs': eng.stats['instrs'], 'merges': eng.stats['merges'], 'feas': eng.stats['feas'],
                        'pruned': eng.stats['pruned'], 'blocks': eng.stats.get('blocks', 0),
                        'funcs': dict(eng.stats['funcs']), 'stubs': dict(eng.stats['stubs'])}
        tmo = job.get('timeout_ms', 60000)
        eng.solver.set('timeout', tmo)
        known = job.get('known_regions') or {}
        # covers
        for label, pc in eng.covers:
            t = time.time()
            if pc is True:
                r, model = 'sat', {}
                eng.solver.push(); rr = eng.solver.check()
                model = _model_inputs(eng, eng.solver.model(), z3, gosmt) if rr == z3.sat else {}
                eng.solver.pop()
            elif pc is False:
                r, model = 'unsat', None
            else:
                eng.solver.push(); eng.solver.add(pc)
                rr = eng.solver.check()
                r = str(rr)
                model = _model_inputs(eng, eng.solver.model(), z3, gosmt) if rr == z3.sat else None
                eng.solver.pop()
            res['covers'].append({'label': label, 'result': r, 'model': model, 's': round(time.time() - t, 3)})
        # obligations
        for label, cond in eng.obligations:
            ob = {'label': label, 'trivial': cond is False, 'queries': []}
            res['obligations'].append(ob)
            if cond is False:
                ob['result'] = 'unsat'
                continue
            kind = label.split(':')[0]
            regs = [(n, eng.regions.get(n)) for n in known.get(label, []) if n in eng.regions]
            if kind == 'panic':
                regs += [(n, eng.regions.get(n)) for n in known.get('panic', []) if n in eng.regions]
            rest = cond
            if regs:
                rest = gosmt.And(cond, *[gosmt.Not(rc) for _, rc in regs])
            t = time.time()
            if rest is False:
                r, model = 'unsat', None
            else:
                eng.solver.push(); eng.solver.add(gosmt.zbool(rest))
                rr = eng.solver.check()
                r = str(rr)
                model = _model_inputs(eng, eng.solver.model(), z3, gosmt) if rr == z3.sat else None
                eng.solver.pop()
            ob['result'], ob['model'], ob['s'] = r, model, round(time.time() - t, 3)
            ob['known'] = []
            for n, rc in regs:
                q = gosmt.And(cond, rc)
                if q is False:
                    ob['known'].append({'region': n, 'result': 'unsat', 'model': None})
                    continue
                eng.solver.push(); eng.solver.add(gosmt.zbool(q))
                rr = eng.solver.check()
                km = _model_inputs(eng, eng.solver.model(), z3, gosmt) if rr == z3.sat else None
                eng.solver.pop()
                ob['known'].append({'region': n, 'result': str(rr), 'model': km})
        res['total_s'] = round(time.time() - t0, 2)
    except Exception as e:
        res['error'] = '%s: %s' % (type(e).__name__, e)
        res['trace'] = traceback.format_exc()[-3000:]
    return res


def _init_worker():
    signal.signal(signal.SIGINT, signal.SIG_IGN)


def run_jobs(jobs, procs=NCPU):
    """run harness jobs in a process pool; Fork() requests expand into sub-jobs that are scheduled at once"""
    results = []
    if not jobs:
        return results
    import queue
    done = queue.Queue()
    outstanding = 0
    with multiprocessing.get_context('fork').Pool(procs, _init_worker, maxtasksperchild=1) as pool:
        def submit(job):
            pool.apply_async(run_case, (job,), callback=lambda r, job=job: done.put((job, r)),
                             error_callback=lambda e, job=job: done.put((job, {'entry': job['entry'], 'forks': job.get('forks') or {}, 'hid': job.get('hid'),
                                                                               'obligations': [], 'covers': [], 'needfork': None,
                                                                               'error': 'worker failed: %r' % (e,)})))
        for j in jobs:
            submit(j)
            outstanding += 1
        while outstanding:
            job, r = done.get()
            outstanding -= 1
            if r.get('needfork'):
                name, n = r['needfork']
                for v in range(n):
                    j2 = dict(job)
                    j2['forks'] = dict(job.get('forks') or {})
                    j2['forks'][name] = v
                    submit(j2)
                    outstanding += 1
            else:
                results.append(r)
    results.sort(key=lambda r: (r['entry'], json.dumps(r['forks'], sort_keys=True)))
    return results


# -------------------------------------------------------------------- property-level orchestration
class Harness:
    """one harness entry: Go function `entry` in package `pkgpath` (directory `pkgdir`), overlay files"""
    def __init__(self, entry, pkgdir, files, unwind=16, timeout_ms=60000, opts=None, pkgs=None, replay=True,
                 replay_timeout=240, hang_labels=(), cover_replay=1, cover_budget=3, replay_attempts=1):
        self.entry, self.pkgdir, self.files = entry, pkgdir, files
        self.pkgpath = MOD + '/' + pkgdir
        self.unwind, self.timeout_ms, self.opts = unwind, timeout_ms, opts or {}
        self.pkgs = pkgs or ['./' + pkgdir]
        self.replay, self.replay_timeout = replay, replay_timeout
        self.hang_labels = set(hang_labels)
        self.cover_replay = cover_replay
        self.cover_budget = cover_budget
        # native map iteration order is random: an order-dependent counterexample is replayed up to this many times
        self.replay_attempts = replay_attempts

    @property
    def fq(self):
        return self.pkgpath + '.' + self.entry


def check_harnesses(ctx, harnesses, allow=None):
    """export once per distinct (files, pkgs) group, run all entries, decide, replay; fills ctx"""
    groups = {}
    for h in harnesses:
        key = (tuple(sorted(h.files.items())), tuple(h.pkgs))
        groups.setdefault(key, []).append(h)
    jobs, hmap = [], {}
    for gi, (key, hs) in enumerate(groups.items()):
        files = dict(key[0])
        roots = sorted({h.fq for h in hs} | {h.pkgpath + '.VerifOnBlocked' for h in hs if h.hang_labels})
        prog = ctx.export(files, list(key[1]), roots, allow=allow, tag='prog%d' % gi)
        for h in hs:
            kr = {}
            for k in ctx.known:
                if k.get('status') == 'open' and k.get('harness') == h.entry:
                    kr.setdefault(k['label'], []).append(k['region'])
            jobs.append({'prog': prog, 'entry': h.fq, 'unwind': h.unwind, 'timeout_ms': h.timeout_ms,
                         'known_regions': kr, 'opts': h.opts, 'hid': len(hmap)})
            hmap[len(hmap)] = h
    results = run_jobs(jobs)
    for r in results:
        h = hmap[r['hid']]
        r['harness'] = h.entry
        ctx.results.append(r)
        if r.get('error'):
            ctx.notes.append('ENGINE-ERROR %s forks=%s: %s' % (h.entry, r['forks'], r['error']))
            log('ENGINE-ERROR', h.entry, r['forks'], r['error'])
            log(r.get('trace', ''))
            continue
        post_process(ctx, h, r)
    return results


def merge_inputs(model, forks):
    d = dict(model or {})
    for k, v in (forks or {}).items():
        d[k + '#0'] = v
    return d


def post_process(ctx, h, r):
    """replays for SAT obligations and covers; classification"""
    covers_done = 0
    for c in r['covers']:
        if (c['result'] == 'sat' and h.replay and covers_done < h.cover_replay and c.get('model') is not None
                and ctx.cover_budget.get(h.entry, 0) < h.cover_budget):
            ctx.cover_budget[h.entry] = ctx.cover_budget.get(h.entry, 0) + 1
            covers_done += 1
            rr = ctx.replay(h.files, h.pkgdir, h.pkgpath, h.entry, merge_inputs(c['model'], r['forks']), h.replay_timeout, h.opts.get('params'))
            c['replayed'] = bool(rr and c['label'] in rr.get('covers', []) and not rr.get('assume_broken'))
            if c['replayed']:
                ctx.replays_ok += 1
            else:
                ctx.notes.append('COVER-REPLAY-MISMATCH %s %s: %s' % (h.entry, c['label'], rr))
                log('COVER-REPLAY-MISMATCH', h.entry, c['label'], rr)
        if c['result'] == 'unsat':
            ctx.notes.append('VACUOUS cover %s in %s forks=%s' % (c['label'], h.entry, r['forks']))
    seen_labels = ctx.seen
    for ob in r['obligations']:
        label = ob['label']
        kind = label.split(':')[0]
        ob['status'] = 'discharged' if ob['result'] == 'unsat' else 'open'
        if ob['result'] == 'unknown':
            ob['status'] = 'inconclusive'
            ctx.notes.append('UNKNOWN %s %s' % (h.entry, label))
        # known-finding regions
        for k in ob.get('known', []):
            key = (h.entry, label, k['region'])
            if k['result'] == 'sat' and key not in seen_labels:
                seen_labels.add(key)
                kf = [x for x in ctx.known if x.get('region') == k['region'] and x.get('harness') == h.entry][0]
                ok = True
                if h.replay:
                    rr = ctx.replay(h.files, h.pkgdir, h.pkgpath, h.entry, merge_inputs(k['model'], r['forks']), h.replay_timeout, h.opts.get('params'))
                    ok = reproduced(rr, label, h)
                if ok:
                    ctx.replays_ok += 1 if h.replay else 0
                    line = 'KNOWN-FINDING: property=%s %s' % (ctx.pid, kf['what'])
                    if line not in ctx.known_lines:
                        ctx.known_lines.append(line)
                        log(line)
                else:
                    ctx.notes.append('KNOWN-FINDING-NOT-REPRODUCED %s %s' % (h.entry, k['region']))
        if ob['result'] != 'sat':
            continue
        if kind == 'unwind':
            ob['status'] = 'bound-insufficient'
            ctx.notes.append('UNWIND-INSUFFICIENT %s %s' % (h.entry, label))
            log('UNWIND-INSUFFICIENT', h.entry, label)
            continue
        if kind == 'bound':
            ob['status'] = 'bound-insufficient'
            ctx.notes.append('BOUND-INSUFFICIENT %s %s' % (h.entry, label))
            continue
        key = (h.entry, label)
        if key in seen_labels:
            ob['status'] = 'violated-duplicate'
            continue
        inputs = merge_inputs(ob['model'], r['forks'])
        if not h.replay:
            ob['status'] = 'violated-unreplayed'
            ctx.notes.append('SAT-WITHOUT-REPLAY %s %s %s' % (h.entry, label, json.dumps(inputs)[:400]))
            continue
        for attempt in range(h.replay_attempts):
            rr = ctx.replay(h.files, h.pkgdir, h.pkgpath, h.entry, inputs, h.replay_timeout, h.opts.get('params'))
            if reproduced(rr, label, h):
                break
        if reproduced(rr, label, h):
            seen_labels.add(key)
            ctx.replays_ok += 1
            ob['status'] = 'violated'
            path = ctx.keep_replay(label, h.entry, inputs, {'pkgdir': h.pkgdir, 'files': h.files, 'params': h.opts.get('params'), 'native_result': rr})
            ctx.violations.append((label, path))
            log('VIOLATION property=%s replay=%s' % (ctx.pid, path))
            log('   harness=%s label=%s inputs=%s' % (h.entry, label, json.dumps(inputs)[:600]))
        else:
            ob['status'] = 'encoder-mismatch'
            ctx.notes.append('ENCODER-MISMATCH %s %s inputs=%s native=%s' % (h.entry, label, json.dumps(inputs)[:600], rr))
            log('ENCODER-MISMATCH', h.entry, label, json.dumps(inputs)[:600], rr)


def reproduced(rr, label, h):
    if rr is None:
        return False
    if rr.get('timeout'):
        return label in h.hang_labels
    if rr.get('assume_broken'):
        return False
    if label.startswith('panic:'):
        return bool(rr.get('panic'))
    return label in rr.get('failed', [])


def write_evidence(ctx, level, explanation, bounds, assumptions, trusted=None, extra=None):
    obs = [o for r in ctx.results for o in r.get('obligations', [])]
    covers = [c for r in ctx.results for c in r.get('covers', [])]
    nontriv = set()
    for r in ctx.results:
        for i, o in enumerate(r.get('obligations', [])):
            if not o.get('trivial'):
                nontriv.add((r['entry'], json.dumps(r['forks'], sort_keys=True), i))
    discharged = sum(1 for o in obs if o.get('status') == 'discharged') + sum(1 for c in covers if c['result'] == 'sat')
    total = len(obs) + len(covers)
    errors = [r for r in ctx.results if r.get('error')]
    funcs, stubs, instrs, blocks = {}, {}, 0, 0
    for r in ctx.results:
        s = r.get('stats') or {}
        instrs += s.get('instrs', 0)
        blocks += s.get('blocks', 0)
        for k, v in (s.get('funcs') or {}).items():
            funcs[k] = funcs.get(k, 0) + v
        for k, v in (s.get('stubs') or {}).items():
            stubs[k] = stubs.get(k, 0) + v
    samples = []
    for r in ctx.results:
        for c in r.get('covers', []):
            if c.get('model') is not None and len(samples) < 12:
                samples.append({'harness': r['harness'], 'forks': r['forks'], 'cover': c['label'], 'inputs': c['model'],
                                'replayed_natively': c.get('replayed', False)})
    if not samples:
        samples = [{'harness': r.get('harness'), 'forks': r.get('forks'), 'obligation_labels': sorted({o['label'] for o in r.get('obligations', [])})[:10]}
                   for r in ctx.results[:5]]
    solver_s = round(sum(o.get('s', 0) for o in obs) + sum(c.get('s', 0) for c in covers), 2)
    real_funcs = sorted(k for k in funcs if '/internal/verif' not in k and '.Verif' not in k and 'zz_verif' not in k)
    cov = {
        'states': max(1, blocks),
        'transitions': max(1, instrs),
        'traces_validated_against_impl': ctx.replays_ok,
        'samples': samples,
        'evaluations': max(1, total),
        'distinct_nontrivial': len(nontriv) + sum(1 for c in covers if c['result'] == 'sat'),
        'rule': 'one evaluation = one solver query (an assertion, panic-site, unwinding or bound obligation, or a cover-point '
                'reachability witness) over the symbolic execution of the harness; an obligation is non-trivial when its '
                'formula was not decided syntactically and needed the solver; states = basic-block activations after '
                'merging, transitions = SSA instructions executed symbolically',
        'obligations': total,
        'discharged': discharged,
        'checker_cmd': 'python3-vt /verif/check.py %s --tier %s' % (ctx.pid, ctx.tier),
        'trusted_base': trusted or [],
        'explanation': explanation,
        'bounds': bounds,
        'functions_encoded': real_funcs[:400],
        'functions_encoded_count': len(real_funcs),
        'intrinsics_hit': stubs,
        'harness_cases': len(ctx.results),
        'engine_errors': len(errors),
        'solver_time_s': solver_s,
        'symex_time_s': round(sum(r.get('symex_s', 0) for r in ctx.results), 2),
        'exports': ctx.exports,
        'notes': ctx.notes[:60],
        'known_findings_reported': ctx.known_lines,
        'exhaustive': False,
    }
    if extra:
        cov.update(extra)
    ev = {
        'property_id': ctx.pid, 'tier': ctx.tier, 'seed': ctx.seed, 'level': level, 'coverage': cov,
        'assumptions': assumptions + ctx.assumptions, 'wall_s': round(time.time() - ctx.t0, 1),
        'violations': len(ctx.violations),
    }
    # (VERIF_EVIDENCE_DIR: scratch location used when the checks are tried against seeded changes)
    edir = os.environ.get('VERIF_EVIDENCE_DIR') or os.path.join(VERIF, 'evidence')
    os.makedirs(edir, exist_ok=True)
    p = os.path.join(edir, ctx.pid + '.json')
    json.dump(ev, open(p, 'w'), indent=1, default=str)
    return ev
