"""C12 — no request can crash the server (DESIGN.md section 6, C12)."""
import driver

NB = {'pkg/northbound/gnmi/v2/zz_verif_nbenv.go': 'nb/zz_verif_nbenv.go',
      'pkg/northbound/gnmi/v2/zz_verif_nbgen.go': 'nb/zz_verif_nbgen.go'}


def run(ctx):
    H = driver.Harness
    f = dict(NB); f['pkg/northbound/gnmi/v2/zz_verif_c12.go'] = 'c12/zz_verif_c12.go'
    f['pkg/northbound/gnmi/v2/zz_verif_c19.go'] = 'c19/zz_verif_c19.go'
    params = {'namelen': 3, 'elems': 1, 'prefixelems': 0, 'pool': 5, 'keys': 3} if ctx.tier == 'quick' else {'namelen': 4, 'elems': 1, 'prefixelems': 1, 'pool': 13, 'keys': 4}
    hs = [H('VerifC12Set', 'pkg/northbound/gnmi/v2', f, unwind=70, opts={'params': params, 'dec_text_unknown': True}),
          H('VerifC12Subscribe', 'pkg/northbound/gnmi/v2', f, unwind=10, opts={'params': params, 'cuts': {'github.com/openconfig/gnmi/path.ToStrings': 'noop'}})]
    hs.append(H('VerifC12Get', 'pkg/northbound/gnmi/v2', f, unwind=12, opts={'params': params}))
    hs.append(H('VerifC12Admin', 'pkg/northbound/admin', {'pkg/northbound/admin/zz_verif_c12_admin.go': 'c12/zz_verif_c12_admin.go'}, unwind=12, opts={'params': params}))
    if ctx.only:
        hs = [h for h in hs if h.entry in ctx.only]
    driver.check_harnesses(ctx, hs)
    driver.write_evidence(ctx, 'model_checking', 'panic-site obligations over shape-generic requests', {'params': params}, [])
