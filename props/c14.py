"""C14 — only members of an admin group may change configuration (DESIGN.md section 6, C14)."""
import driver


def run(ctx):
    H = driver.Harness
    hs = [H('VerifC14', 'pkg/utils', {'pkg/utils/zz_verif_c14.go': 'c14/zz_verif_c14.go'}, unwind=12)]
    driver.check_harnesses(ctx, hs)
    driver.write_evidence(ctx, 'model_checking', 'bounded symbolic execution of the real TemporaryEvaluate', {}, [])
