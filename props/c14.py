"""C14 — only members of an admin group may change configuration (DESIGN.md section 6, C14)."""
import driver


def run(ctx):
    H = driver.Harness
    params = {'groupslen': 4, 'adminlen': 4} if ctx.tier == 'quick' else {'groupslen': 5, 'adminlen': 5}
    hs = [H('VerifC14', 'pkg/utils', {'pkg/utils/zz_verif_c14.go': 'c14/zz_verif_c14.go'}, unwind=params['groupslen'] + params['adminlen'] + 4,
            opts={'params': params}, timeout_ms=60000 if ctx.tier == 'quick' else 900000)]
    nb = {'pkg/northbound/gnmi/v2/zz_verif_nbenv.go': 'nb/zz_verif_nbenv.go', 'pkg/northbound/gnmi/v2/zz_verif_nbgen.go': 'nb/zz_verif_nbgen.go',
          'pkg/northbound/gnmi/v2/zz_verif_c14.go': 'c14/zz_verif_c14_set.go'}
    sp = {'groupslen': 3, 'adminlen': 3} if ctx.tier == 'quick' else {'groupslen': 4, 'adminlen': 4}
    hs.append(H('VerifC14Set', 'pkg/northbound/gnmi/v2', nb, unwind=14, opts={'params': sp}, timeout_ms=120000))
    hs.append(H('VerifC14List', 'pkg/northbound/gnmi/v2', nb, unwind=14, opts={'params': {'groupslen': 5 if ctx.tier == 'quick' else 6}}, timeout_ms=120000))
    if ctx.only:
        hs = [h for h in hs if h.entry in ctx.only]
    driver.check_harnesses(ctx, hs)
    driver.write_evidence(ctx, 'model_checking', 'bounded symbolic execution of the real TemporaryEvaluate', {'params': params}, [])
