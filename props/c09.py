"""C09 — controllers never strand a transaction that could make progress (DESIGN.md section 6, C09)."""
from props import proto


def run(ctx):
    quick = ctx.tier == 'quick'
    d = 24 if quick else 40
    cfg = dict(nt=1, nx=2, sync=False, rollback=False, faults=False, crash=False)
    queries = [('reach', 26, ['reach:tx1-applied']), ('stuck', d, ['bad:stranded'])]
    proto.run(ctx, 'C09', [('1x2', cfg, queries, ['c09'])],
              'BMC deadlock-freedom: no reachable state is a fixed point of every Reconcile (probe step per id) while a transaction '
              'with all targets connected is not final', {'bmc_depth': d})
