"""C09 — controllers never strand a transaction that could make progress (DESIGN.md section 6, C09)."""
from props import proto
import driver


def run(ctx):
    quick = ctx.tier == 'quick'
    d = 24 if quick else 40
    cfg = dict(nt=1, nx=2, sync=False, rollback=False, faults=False, crash=False)
    queries = [('reach', 26, ['reach:tx1-applied']), ('stuck', d, ['bad:stranded'])]
    # waypoints (deeper histories): from one reachable state of each class of the first two transactions
    # (C committed-not-applied, A applied, F failed) every continuation of 14 steps
    way2 = lambda a, b: {'pred': 'reach:w-' + a + b, 'depth': 18, 'seed': {'pred': 'reach:w-' + a + '-', 'depth': 20}, 'variants': 1 if quick else 3}
    queries += [('stuck', 14, ['bad:stranded'], way2(a, b)) for a, b in (('C', 'F'), ('C', 'C'))]
    configs = [('1x2', cfg, queries, ['c09'])]
    # work sets (both sentences of the property with the controllers' queues in the model): a reconcile runs only when its
    # request is pending (store events mapped as the real watchers do, Result.Requeue, retry after an error); device
    # refusals on. bad = no request pending although re-examining a record changes the state / a transaction is not final
    cfgw = dict(nt=1, nx=2, sync=False, rollback=False, faults=True, crash=False, work=True)
    wbad = ['bad:c09-idle-not-fixed-point', 'bad:c09-idle-not-final']
    dw = 16 if quick else 30
    qw = [('reach', 28, ['reach:tx1-applied']), ('bad', dw, wbad)] if quick else [('reach', 28, ['reach:tx1-applied']), ('bad', dw, [wbad[0]]), ('bad', dw, [wbad[1]])]
    wsteps = 12 if quick else 20
    if not quick:
        qw += [('bad', wsteps, wbad, way2(a, b)) for a, b in (('C', 'C'), ('C', 'F'), ('A', 'C'), ('F', 'C'))]
    configs.append(('1x2w', cfgw, qw, []))
    if not quick:
        # three transactions on one target: the third is committed on top of a committed(-not-applied)/failed pair, then 20 steps
        cfg3 = dict(nt=1, nx=3, sync=False, rollback=False, faults=False, crash=False)
        def way3(a, b, c):
            s1 = {'pred': 'reach:w-%s--' % a, 'depth': 18}
            s2 = {'pred': 'reach:w-%s%s-' % (a, b), 'depth': 18, 'seed': s1}
            return {'pred': 'reach:w-%s%s%s' % (a, b, c), 'depth': 24, 'seed': s2}
        q3 = [('stuck', 20, ['bad:stranded'], way3(a, b, 'C')) for a, b in (('C', 'F'), ('C', 'C'))]
        configs.append(('1x3', cfg3, q3, []))
        cfg3w = dict(nt=1, nx=3, sync=False, rollback=False, faults=True, crash=False, work=True)
        q3w = [('bad', 24, wbad, way3(a, b, 'C')) for a, b in (('C', 'C'), ('C', 'F'))]
        configs.append(('1x3w', cfg3w, q3w, []))
    # the event -> request mapping the work sets assume, checked against the REAL watcher goroutines (coroutine engine)
    H = driver.Harness
    wh = [H('VerifC09WatchTx', 'pkg/controller/v2/transaction', {'pkg/controller/v2/transaction/zz_verif_c09_watch.go': 'c09/zz_verif_c09_watch_tx.go'}, unwind=8, opts={'goroutine_park': True}),
          H('VerifC09WatchProp', 'pkg/controller/v2/proposal', {'pkg/controller/v2/proposal/zz_verif_c09_watch.go': 'c09/zz_verif_c09_watch_prop.go'}, unwind=8, opts={'goroutine_park': True}),
          H('VerifC09WatchCfg', 'pkg/controller/v2/configuration', {'pkg/controller/v2/configuration/zz_verif_c09_watch.go': 'c09/zz_verif_c09_watch_cfg.go'}, unwind=8, opts={'goroutine_park': True}),
          H('VerifC09WatchMs', 'pkg/controller/v2/mastership', {'pkg/controller/v2/mastership/zz_verif_c09_watch.go': 'c09/zz_verif_c09_watch_ms.go'}, unwind=8, opts={'goroutine_park': True})]
    if ctx.only:
        wh = [h for h in wh if h.entry in ctx.only]
        driver.check_harnesses(ctx, wh)
        driver.write_evidence(ctx, 'model_checking', 'watcher mapping only', {}, [])
        return
    driver.check_harnesses(ctx, wh)
    proto.run(ctx, 'C09', configs,
              'BMC deadlock-freedom: no reachable state is a fixed point of every Reconcile (probe step per id) while a transaction '
              'with all targets connected is not final', {'bmc_depth': d})
