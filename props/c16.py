"""C16 — textual paths and gNMI paths are one and the same (DESIGN.md section 6, C16)."""
import driver

GEN = {'internal/verifgen/gen.go': 'gen/gen.go'}


def run(ctx):
    H = driver.Harness
    if ctx.tier == 'quick':
        params = {'elems': 2, 'keys': 1, 'namelen': 2, 'vallen': 2}
        p5 = {'elems': 2, 'keys': 1, 'namelen': 1, 'vallen': 2}
    else:
        params = {'elems': 3, 'keys': 1, 'namelen': 2, 'vallen': 2}
        p5 = {'elems': 2, 'keys': 1, 'namelen': 2, 'vallen': 2}
    fu = dict(GEN); fu['pkg/utils/zz_verif_c16.go'] = 'c16/zz_verif_c16.go'
    fv = dict(GEN); fv['pkg/utils/v2/values/zz_verif_c16.go'] = 'c16/zz_verif_c16_values.go'
    fn = dict(GEN); fn['pkg/northbound/gnmi/v2/zz_verif_c16.go'] = 'c16/zz_verif_c16_nb.go'
    hs = [H('VerifC16Roundtrip', 'pkg/utils', fu, unwind=40, opts={'params': params}),
          H('VerifC16Parent', 'pkg/utils', fu, unwind=40, opts={'params': params}),
          H('VerifC16Southbound', 'pkg/utils/v2/values', fv, unwind=40, opts={'params': p5}),
          H('VerifC16SetResponse', 'pkg/northbound/gnmi/v2', fn, unwind=40, opts={'params': p5}),
          H('VerifC16GetUpdate', 'pkg/northbound/gnmi/v2', fn, unwind=40, opts={'params': p5})]
    only = ctx.only
    if only:
        hs = [h for h in hs if h.entry in only]
    driver.check_harnesses(ctx, hs)
    driver.write_evidence(ctx, 'model_checking', 'bounded symbolic execution of the path rendering/parsing functions',
                          {'roundtrip/parent': params, 'southbound/setresponse/get': p5}, [])
