"""C19 — subscriptions reach exactly the targets they name (DESIGN.md section 6, C19)."""
import driver

CUTS = {'github.com/openconfig/gnmi/path.ToStrings': 'noop'}


def run(ctx):
    H = driver.Harness
    f = {'pkg/northbound/gnmi/v2/zz_verif_c19.go': 'c19/zz_verif_c19.go'}
    hs = [H('VerifC19Subscribe', 'pkg/northbound/gnmi/v2', f, unwind=10, opts={'cuts': CUTS}, cover_budget=4)]
    driver.check_harnesses(ctx, hs)
    driver.write_evidence(ctx, 'model_checking', 'real Subscribe/processSubscribeRequest/splitSubscribeRequest/sendSubscriptionRequest vs oracle',
                          {'messages': '1..3', 'entries': '0..2'}, ['openconfig path.ToStrings (textual query list of the client library) cut: not used by the relay'])
