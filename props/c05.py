"""C05 — nothing becomes configuration without passing the target's model (DESIGN.md section 6, C05)."""
import driver
from props import proto, c04


def run(ctx):
    quick = ctx.tier == 'quick'
    H = driver.Harness
    # (a) chunked streaming of the document: pure 64-bit offset arithmetic, document contents not materialised
    hs = [H('VerifC05Chunking', 'pkg/pluginregistry', {'pkg/pluginregistry/zz_verif_c05.go': 'c05/zz_verif_c05.go'}, unwind=7)]
    # (b) the document the plugin is shown vs the configuration that becomes readable: histories of Sets (and the rollback of
    # the last one) through the REAL proposal Validate / Commit over the real configuration store; the harness is the C06
    # data-path harness with the document assertions switched on
    f = dict(c04.NB); f.update(c04.V2C)
    f['pkg/northbound/gnmi/v2/zz_verif_c03.go'] = 'c03/zz_verif_c03.go'
    f['pkg/northbound/gnmi/v2/zz_verif_c04.go'] = 'c04/zz_verif_c04.go'
    f['pkg/northbound/gnmi/v2/zz_verif_c06.go'] = 'c06/zz_verif_c06.go'
    cuts = {c04.BUILDER_GET: 'atomix-map-by-name', c04.PROTO_CODEC: 'noop'}
    hd = [H('VerifC06History', 'pkg/northbound/gnmi/v2', f, unwind=16, opts={'params': {'sets': n, 'again': 0, 'docs': 1}, 'cuts': cuts, 'maporder': mo},
            timeout_ms=300000 if quick else 1800000, replay_attempts=16)
          for n, mo in ([(2, 0)] if quick else [(2, 0), (2, 1), (3, 0)])]
    if not ctx.only or 'VerifC05Chunking' in ctx.only:
        driver.check_harnesses(ctx, hs)
    if not ctx.only or 'VerifC06History' in ctx.only:
        driver.check_harnesses(ctx, hd)
    if ctx.only:
        driver.write_evidence(ctx, 'model_checking', 'partial run', {}, [])
        return
    # (c) ordering / refusal on the transition system of the real reconcilers
    d = 24 if quick else 38
    cfg = dict(nt=1, nx=2, sync=False, rollback=False, faults=False, crash=False)
    queries = [('reach', 26, ['reach:tx1-failed-aborted']), ('bad', d, ['bad:c01-rejected-but-target-altered'])]
    proto.run(ctx, 'C05', [('1x2', cfg, queries, ['c05'])],
              '(a) chunk arithmetic of ModelPluginInfo.Validate for every document length up to 3*chunkSize+2 with unmaterialised '
              'contents; (c) contracts "VALIDATED only with the plugin\'s acceptance in that very step, on top of the predecessor\'s '
              'commit", "a proposal\'s commit opens only in its transaction\'s commit phase" + BMC "a rejected change never becomes readable"',
              {'bmc_depth': d, 'chunking_doc_len_max': '3*chunkSize+2'})
