"""C05 — nothing becomes configuration without passing the target's model (DESIGN.md section 6, C05)."""
import driver
from props import proto


def run(ctx):
    quick = ctx.tier == 'quick'
    H = driver.Harness
    # (a) chunked streaming of the document: pure 64-bit offset arithmetic, document contents not materialised
    hs = [H('VerifC05Chunking', 'pkg/pluginregistry', {'pkg/pluginregistry/zz_verif_c05.go': 'c05/zz_verif_c05.go'}, unwind=7)]
    if not ctx.only or 'VerifC05Chunking' in ctx.only:
        driver.check_harnesses(ctx, hs)
    if ctx.only:
        driver.write_evidence(ctx, 'model_checking', 'partial run', {}, [])
        return
    # (c) ordering / refusal on the transition system of the real reconcilers
    d = 24 if quick else 38
    cfg = dict(nt=1, nx=2, sync=False, rollback=False, faults=False, crash=False)
    queries = [('reach', 26, ['reach:tx1-failed-aborted']), ('bad', d, ['bad:c01-rejected-but-target-altered'])]
    proto.run(ctx, 'C05', [('1x2', cfg, queries, ['c05'])],
              '(a) chunk arithmetic of ModelPluginInfo.Validate for every document length up to 3*chunkSize+2 with unmaterialised '
              'contents; (c) contracts "VALIDATED only with the plugin\'s acceptance in that very step, on top of the predecessor\'s '
              'commit", "a proposal\'s commit opens only in its transaction\'s commit phase" + BMC "a rejected change never becomes readable"',
              {'bmc_depth': d, 'chunking_doc_len_max': '3*chunkSize+2'})
