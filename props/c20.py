"""C20 — the v3 transaction protocol keeps its specified order and consistency (DESIGN.md section 6, C20)."""
import os
import driver
from props import proto

V3S = {'pkg/store/v3/configuration/zz_verif_v3store.go': 'c20s/zz_verif_v3store.go',
       'pkg/store/v3/configuration/zz_verif_v3client.go': 'c20s/zz_verif_v3client_sym.go|c20s/zz_verif_v3client_native.go'}
PV3 = '*github.com/onosproject/onos-api/go/onos/config/v3.PathValue'
STORE_CUTS = {'(*github.com/atomix/go-sdk/pkg/primitive/map.mapBuilder[string, %s]).Get[string %s]' % (PV3, PV3): 'atomix-map-by-name',
              'github.com/atomix/go-sdk/pkg/types.Proto[%s]' % PV3: 'noop'}

ASSUMPTIONS = [
    'stores: flat harness stores implementing the contract of pkg/store/v3 (Get/UpdateStatus, NotFound); version conflicts cannot occur '
    'because every Reconcile is one atomic step in this model',
    'each scheduler step runs exactly one real Reconcile(id) of the v3 transaction controller, or one environment action of '
    'spec/Transaction.tla (AppendChange, RollbackChange(i)), or target connect / restart',
    'one target; transaction i writes leaf i; the configuration is SYNCHRONIZED with mastership term 1 whenever the target is connected '
    '(the v3 configuration / mastership controllers are outside this transition relation)',
    'plugin verdict constant per transaction; device: deletes before updates, optional fault code per step',
    'Termination is read as in spec/Config.tla: under weak fairness of the reconcile steps AND of RollbackChange(i) - a state in which a '
    'rollback request is still enabled is not a dead end (a rollback waits by design for the rollbacks of later committed revisions)',
    'state ranges / record shapes of StateRange() (checked unreachable-to-leave by the bad:range query)',
    'cut: v3 tree.BuildTree -> empty document (the plugin verdict does not depend on content in the harness)',
]


def run(ctx):
    quick = ctx.tier == 'quick'
    # (a) the v3 configuration store: what the controller writes is what a later Get returns
    H = driver.Harness
    hs = [H('VerifC20Store', 'pkg/store/v3/configuration', V3S, unwind=10, opts={'params': {'rounds': n}, 'cuts': STORE_CUTS})
          for n in ([1, 2] if quick else [1, 2, 3])]
    if not os.environ.get('C20_DEBUG'):
        driver.check_harnesses(ctx, hs)
    if ctx.only:
        driver.write_evidence(ctx, 'model_checking', 'partial run', {}, [])
        return
    d = 16 if quick else 24
    cfg = dict(family='v3', nt=1, nx=2, rollback=True, faults=False, crash=False)
    bad = ['bad:c20-consistency-committed-values', 'bad:c20-consistency-applied-values', 'bad:c20-consistency-device-values',
           'bad:c20-order-changes-complete-in-log-order', 'bad:range']
    queries = [('reach', 16, ['reach:tx1-change-applied']), ('reach', 14, ['reach:tx1-commit-failed']), ('reach', 16, ['reach:tx1-rolled-back']),
               ('reach', 16, ['reach:all-rolled-back'])]
    if os.environ.get('C20_DEBUG'):
        queries = [('reach', int(os.environ['C20_DEBUG']), ['reach:all-rolled-back'])]
    else:
        queries += [('bad', d, [b]) for b in bad] + [('stuck', d, ['bad:c20-stranded'])]
    o = {'confirm_depth': d}
    configs = [('v3-1x2', cfg, queries, [] if quick else ['c20'], o)]
    if not os.environ.get('C20_DEBUG'):
        cfgc = dict(family='v3', nt=1, nx=2, rollback=False, faults=False, crash=True, budget=1)
        configs.append(('v3-1x2c', cfgc, [('stuck', d, ['bad:c20-stranded']), ('bad', d, ['bad:c20-consistency-committed-values']),
                                          ('bad', d, ['bad:c20-order-changes-complete-in-log-order'])], [], o))
        if not quick:
            cfgf = dict(family='v3', nt=1, nx=2, rollback=True, faults=True, crash=False)
            configs.append(('v3-1x2f', cfgf, [('bad', d, ['bad:c20-order-applied-past-a-failed-apply']), ('bad', d, ['bad:c20-consistency-device-values']),
                                              ('stuck', d, ['bad:c20-stranded'])], [], o))
            cfg3 = dict(family='v3', nt=1, nx=3, rollback=True, faults=False, crash=False)
            configs.append(('v3-1x3', cfg3, [('bad', 20, [b]) for b in bad] + [('stuck', 20, ['bad:c20-stranded'])], [], {'confirm_depth': 20}))
    proto.run(ctx, 'C20', configs,
              'transition relation of the real v3 transaction Reconciler (commitChange/applyChange/commitRollback/applyRollback/applyValues) over '
              'flat v3 stores with the spec\'s environment actions AppendChange / RollbackChange; the TLA+ Consistency clauses and Order '
              'monitors are state predicates decided by BMC; Termination = no reachable dead end (fixed point of all reconcile steps with an '
              'unfinished transaction); partial writes = crash parameter', {'bmc_depth': d}, assumptions=ASSUMPTIONS, harness='v3')
