"""C07 — a crash between any two store writes loses nothing and repeats nothing (DESIGN.md section 6, C07)."""
from props import proto


def run(ctx):
    quick = ctx.tier == 'quick'
    budget = 1 if quick else 2
    d1, d2 = (24, 24) if quick else (34, 38)
    c11 = dict(nt=1, nx=1, sync=False, rollback=False, faults=False, crash=True, budget=budget)
    c12 = dict(nt=1, nx=2, sync=False, rollback=False, faults=False, crash=True, budget=budget)
    bad = ['bad:c02-merge-out-of-order', 'bad:c01-rejected-but-target-altered', 'bad:c02-send-before-merge']
    q11 = [('reach', 20, ['reach:crashed']), ('stuck', d1, ['bad:c07-wrong-outcome-at-quiescence'])]
    q12 = [('stuck', d2, ['bad:c07-wrong-outcome-at-quiescence'])] + [('bad', d2, [b]) for b in bad]
    # waypoints: both transactions committed and not applied (one solver-chosen reachable state, possibly after a stop), then
    # every continuation of 16 steps incl. a process stop anywhere in the two applies
    way = {'pred': 'reach:w-CC', 'depth': 20, 'seed': {'pred': 'reach:w-C-', 'depth': 20}, 'variants': 1 if quick else 3}
    q12 += [('bad', 16, ['bad:c02-sent-after-a-later-change', 'bad:c02-send-out-of-order', 'bad:c02-applied-but-never-sent'], way),
            ('stuck', 18, ['bad:c07-wrong-outcome-at-quiescence'], way)]
    # waypoint: the first transaction rejected (abort possibly interrupted), the second committed behind it; 14 more steps
    wayf = {'pred': 'reach:w-FC', 'depth': 22, 'seed': {'pred': 'reach:w-F-', 'depth': 24}, 'variants': 1 if quick else 3}
    if not quick:
        q12 += [('stuck', 14, ['bad:c07-wrong-outcome-at-quiescence', 'bad:stranded'], wayf)]
    # waypoint: the abort of the first (rejected) transaction's proposal still under way while the second is committed behind it
    # waypoint: the first transaction committed, the second validated with its commit under way; a process stop may fall between
    # the two writes of that commit (a proposal that has a predecessor on its target)
    wayv = {'pred': 'reach:w-CV', 'depth': 20, 'seed': {'pred': 'reach:w-C-', 'depth': 20}, 'variants': 1 if quick else 3}
    q12 += [('stuck', 12, ['bad:c07-wrong-outcome-at-quiescence', 'bad:stranded'], wayv)]
    wayb = {'pred': 'reach:w-BC', 'depth': 22, 'seed': {'pred': 'reach:w-B-', 'depth': 22}, 'variants': 1 if quick else 3}
    q12 += [('stuck', 12, ['bad:c07-wrong-outcome-at-quiescence', 'bad:stranded'], wayb)]
    proto.run(ctx, 'C07', [('1x1c', c11, q11, []), ('1x2c', c12, q12, [])],
              'process stops injected between any two store/device calls of any step (symbolic crash position per step, budget of '
              'crashes per history): BMC "at quiescence every transaction has the crash-free outcome, nothing merged twice or out of '
              'order, nothing left stuck"', {'bmc_depth': [d1, d2], 'crash_budget': budget})
