"""C03 — stored configuration is the gNMI-sequential effect of acknowledged Sets (DESIGN.md section 6, C03)."""
import driver

NB = {'pkg/northbound/gnmi/v2/zz_verif_nbenv.go': 'nb/zz_verif_nbenv.go',
      'pkg/northbound/gnmi/v2/zz_verif_nbgen.go': 'nb/zz_verif_nbgen.go'}
V2C = {'pkg/controller/v2/proposal/zz_verif_ctor.go': 'v2/ctor_prop.go',
       'pkg/store/v2/configuration/zz_verif_cfgstore.go': 'c03/zz_verif_cfgstore.go',
       'pkg/store/v2/configuration/zz_verif_cfgclient.go': 'c03/zz_verif_cfgclient_sym.go|c03/zz_verif_cfgclient_native.go'}
# the SDK's map builder resolves a primitive by its NAME (PrimitiveID{Name}); the symbolic run binds names to stub primitives
PROTO_CODEC = 'github.com/atomix/go-sdk/pkg/types.Proto[*github.com/onosproject/onos-api/go/onos/config/v2.PathValue]'
BUILDER_GET = ('(*github.com/atomix/go-sdk/pkg/primitive/map.mapBuilder[string, *github.com/onosproject/onos-api/go/onos/config/v2.PathValue]).Get'
               '[string *github.com/onosproject/onos-api/go/onos/config/v2.PathValue]')


def run(ctx):
    H = driver.Harness
    f = dict(NB); f.update(V2C); f['pkg/northbound/gnmi/v2/zz_verif_c03.go'] = 'c03/zz_verif_c03.go'
    sets = [1, 2] if ctx.tier == 'quick' else [1, 2, 3]
    # Go leaves the iteration order of a map unspecified: every history is executed with the map ranges of the code
    # under test running forwards and backwards (a native replay is repeated until the random order reproduces)
    hs = [H('VerifC03History', 'pkg/northbound/gnmi/v2', f, unwind=16,
            opts={'params': {'sets': n, 'onlycombined': mo}, 'cuts': {BUILDER_GET: 'atomix-map-by-name', PROTO_CODEC: 'noop'}, 'maporder': mo},
            timeout_ms=300000 if ctx.tier == 'quick' else 1800000, replay_attempts=16) for n in sets for mo in (0, 1)]
    # the queried path split between the request prefix and the path (one Set in the history)
    hs.append(H('VerifC03History', 'pkg/northbound/gnmi/v2', f, unwind=16,
                opts={'params': {'sets': 1, 'onlycombined': 0, 'getsplit': 1}, 'cuts': {BUILDER_GET: 'atomix-map-by-name', PROTO_CODEC: 'noop'}, 'maporder': 0},
                timeout_ms=300000, replay_attempts=16))
    driver.check_harnesses(ctx, hs)
    driver.write_evidence(ctx, 'model_checking', 'data path Set -> commit -> real configuration store -> Get vs reference gNMI state machine',
                          {'sets': sets}, [])
