"""C17 — values survive the journey unchanged (DESIGN.md section 6, C17)."""
import driver


def run(ctx):
    H = driver.Harness
    hs = []
    for ver in ('v2',):
        f = {'pkg/utils/%s/values/zz_verif_c17.go' % ver: 'c17/zz_verif_c17.go'}
        for e in ('VerifC17Int', 'VerifC17Uint', 'VerifC17Scalars'):
            hs.append(H(e, 'pkg/utils/%s/values' % ver, f, unwind=20, timeout_ms=300000))
        # leaf-lists: the variable-length big.Int encodings are concatenated and re-sliced: case split on every length
        hs.append(H('VerifC17LeafListOther', 'pkg/utils/%s/values' % ver, f, unwind=20, timeout_ms=300000, opts={'big_bytes_split': True}))
        hs.append(H('VerifC17LeafListUint', 'pkg/utils/%s/values' % ver, f, unwind=20, timeout_ms=300000, opts={'big_bytes_split': True}))
    if ctx.only:
        hs = [h for h in hs if h.entry in ctx.only]
    driver.check_harnesses(ctx, hs)
    driver.write_evidence(ctx, 'model_checking', 'gNMI <-> native value conversions with fully symbolic 64-bit values', {}, [])
