"""C01 — a multi-target Set is committed on all of its targets or on none (DESIGN.md section 6, C01)."""
from props import proto


def run(ctx):
    quick = ctx.tier == 'quick'
    cfg21 = dict(nt=2, nx=1, sync=False, rollback=False, faults=False, crash=False)
    d = 30 if quick else 44
    bad = ['bad:c01-committed-but-target-unaltered', 'bad:c01-rejected-but-target-altered', 'bad:range']
    q21 = [('reach', 30, ['reach:tx1-committed-on-two-targets']), ('reach', 34, ['reach:tx1-failed-aborted'])] + [('bad', d, [b]) for b in bad]
    configs = [('2x1', cfg21, q21, ['c01', 'c05'])]
    # two transactions over two targets. Waypoints: the first transaction is validated (its commits under way) or committed,
    # the second has failed: one solver-chosen reachable state of the class, then every continuation of 12 steps
    cfg22 = dict(nt=2, nx=2, sync=False, rollback=False, faults=False, crash=False)
    way = lambda a, b: {'pred': 'reach:w-' + a + b, 'depth': 20, 'seed': {'pred': 'reach:w-' + a + '-', 'depth': 18}, 'variants': 1 if quick else 3}
    # U = validated with none of its proposals committed yet, the second transaction failed with its abort still under way
    wayu = {'pred': 'reach:w-UF', 'depth': 24, 'seed': {'pred': 'reach:w-U-', 'depth': 22}, 'variants': 3}
    q22 = [('bad', 12, bad[:2], way('C', 'F'))]
    if not quick:
        q22 += [('bad', 12, bad[:2], way('V', 'F')), ('bad', 12, bad[:2], wayu)]
    if not quick:
        q22 += [('bad', 36, [b]) for b in bad]
    if not quick:      # (measured: the 2x2 relation and one waypoint chain alone cost about 7 minutes: thorough tier only)
        configs.append(('2x2', cfg22, q22, ['c01', 'c05']))
    proto.run(ctx, 'C01', configs,
              'transition relation of the real v2 transaction/proposal reconcilers with two targets; contracts "commit opens only when '
              'every proposal is VALIDATED", "values change only in the commit phase" + BMC of the all-or-nothing state predicates',
              {'bmc_depth': d})
