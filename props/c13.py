"""C13 — a refused Set changes nothing; targets and paths resolve as documented (DESIGN.md section 6, C13)."""
import driver

NB = {'pkg/northbound/gnmi/v2/zz_verif_nbenv.go': 'nb/zz_verif_nbenv.go',
      'pkg/northbound/gnmi/v2/zz_verif_nbgen.go': 'nb/zz_verif_nbgen.go'}


def run(ctx):
    H = driver.Harness
    f = dict(NB); f['pkg/northbound/gnmi/v2/zz_verif_c13.go'] = 'c13/zz_verif_c13.go'
    hs = [H('VerifC13Set', 'pkg/northbound/gnmi/v2', f, unwind=12, cover_budget=4)]
    driver.check_harnesses(ctx, hs)
    driver.write_evidence(ctx, 'model_checking', 'real Set handler vs reference resolver over a pool of operations', {'ops': '0..2', 'pool': 8}, [])
