"""C10 — only the current master writes, in its term, after re-synchronising (DESIGN.md section 6, C10)."""
from props import proto


def run(ctx):
    quick = ctx.tier == 'quick'
    d = 34 if quick else 46
    cfg = dict(nt=1, nx=1, sync=True, rollback=False, faults=True, crash=False)
    bad = ['bad:c10-send-with-stale-election-id', 'bad:c10-send-before-resync', 'bad:c10-resync-without-repush', 'bad:range']
    queries = [('reach', 30, ['reach:tx1-applied']), ('reach', 30, ['reach:resynced-in-second-term'])] + [('bad', d, [b]) for b in bad]
    configs = [('1x1sf', cfg, queries, ['c10'])]
    if not quick:
        cfg2 = dict(nt=1, nx=2, sync=True, rollback=False, faults=True, crash=False)
        configs.append(('1x2sf', cfg2, [('bad', 30, [b]) for b in bad], ['c10']))
    proto.run(ctx, 'C10', configs,
              'real mastership, configuration and proposal reconcilers with connection loss / device restart / re-connection under a '
              'new connection id anywhere in the history: contracts "new master => term+1 and master is a live connection", "term '
              'changes only with the master", "applied term advances only by the re-push" + BMC of the ghost monitors "every accepted '
              'Set carries the stored term as election id" and "no change is sent before the re-push of its term"',
              {'bmc_depth': d})
