"""C15 — stores never lose an update (first sentence; watcher delivery under concurrency is outside, DESIGN.md section 7)."""
import driver
from props import c03, c20


def run(ctx):
    H = driver.Harness
    hs = [H('VerifC15Transaction', 'pkg/store/v2/transaction', {'pkg/store/v2/transaction/zz_verif_c15.go': 'c15/zz_verif_c15_tx.go'}, unwind=8),
          H('VerifC15Proposal', 'pkg/store/v2/proposal', {'pkg/store/v2/proposal/zz_verif_c15.go': 'c15/zz_verif_c15_prop.go'}, unwind=8),
          H('VerifC15Configuration', 'pkg/store/v2/configuration', {'pkg/store/v2/configuration/zz_verif_cfgstore.go': 'c03/zz_verif_cfgstore.go', 'pkg/store/v2/configuration/zz_verif_cfgclient.go': 'c03/zz_verif_cfgclient_sym.go|c03/zz_verif_cfgclient_native.go'}, unwind=12,
            opts={'cuts': {c03.BUILDER_GET: 'atomix-map-by-name', c03.PROTO_CODEC: 'noop'}})]
    txw = {'pkg/store/v2/transaction/zz_verif_c15.go': 'c15/zz_verif_c15_tx.go', 'pkg/store/v2/transaction/zz_verif_c15_watch.go': 'c15/zz_verif_c15_txwatch.go'}
    for so in (0, 1):          # which ready case a select takes
        for mo in (0, 1):      # order in which the pump walks its watcher maps
            hs.append(H('VerifC15TxWatch', 'pkg/store/v2/transaction', txw, unwind=14, replay_attempts=4,
                        opts={'goroutine_park': True, 'select_order': so, 'maporder': mo}))
    hs.append(H('VerifC15PropWatch', 'pkg/store/v2/proposal', {'pkg/store/v2/proposal/zz_verif_c15_watch.go': 'c15/zz_verif_c15_propwatch.go'}, unwind=14,
                opts={'goroutine_park': True}))
    cfw = {'pkg/store/v2/configuration/zz_verif_cfgstore.go': 'c03/zz_verif_cfgstore.go', 'pkg/store/v2/configuration/zz_verif_cfgclient.go': 'c03/zz_verif_cfgclient_sym.go|c03/zz_verif_cfgclient_native.go',
           'pkg/store/v2/configuration/zz_verif_c15_watch.go': 'c15/zz_verif_c15_cfgwatch.go'}
    for so in (0, 1):
        for mo in (0, 1):
            hs.append(H('VerifC15CfgWatch', 'pkg/store/v2/configuration', cfw, unwind=14, replay_attempts=4,
                        opts={'goroutine_park': True, 'select_order': so, 'maporder': mo, 'cuts': {c03.BUILDER_GET: 'atomix-map-by-name', c03.PROTO_CODEC: 'noop'}}))
    hs.append(H('VerifC15V3Configuration', 'pkg/store/v3/configuration', c20.V3S, unwind=12, opts={'cuts': c20.STORE_CUTS}))
    if ctx.only:
        hs = [h for h in hs if h.entry in ctx.only]
    driver.check_harnesses(ctx, hs)
    driver.write_evidence(ctx, 'model_checking', 'store wrappers over stub atomix primitives: conditional updates, versions, indexes', {}, [])
