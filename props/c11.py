"""C11 — a device refusing a change fails that change only, and only real refusals (DESIGN.md section 6, C11)."""
from props import proto


def run(ctx):
    quick = ctx.tier == 'quick'
    d = 24 if quick else 36
    cfg = dict(nt=1, nx=2, sync=False, rollback=False, faults=True, crash=False)
    queries = [('reach', 28, ['reach:tx1-apply-failed']), ('reach', 28, ['reach:fault']),
               ('stuck', d, ['bad:stranded']), ('bad', d, ['bad:c02-send-out-of-order'])]
    # a refusal AND a process stop in one history: both transactions committed (waypoint), then every continuation of 16 steps in
    # which the device may refuse and the process may stop between the writes that record the refusal; nothing is left stranded
    cfgc = dict(nt=1, nx=2, sync=False, rollback=False, faults=True, crash=True, budget=1)
    way = {'pred': 'reach:w-CC', 'depth': 20, 'seed': {'pred': 'reach:w-C-', 'depth': 20}}
    qc = [('stuck', 16 if quick else 22, ['bad:stranded'], way)]
    proto.run(ctx, 'C11', [('1x2f', cfg, queries, ['c11']), ('1x2fc', cfgc, qc, [])],
              'apply step of the real proposal reconciler against a device answering every gRPC code (symbolic per step): contracts '
              '"unreachable/slow/superseded leaves the change pending", "a refusal fails the change with the device\'s error class, '
              'advances the applied index, leaves applied values and device alone" + BMC "after refusals nothing is stranded"',
              {'bmc_depth': d, 'grpc_codes': '0..16'})
