"""C18 — the JSON document is the configuration, no more and no less (DESIGN.md section 6, C18)."""
import driver


def run(ctx):
    H = driver.Harness
    quick = ctx.tier == 'quick'
    params = {'maxpaths': 5}
    hs = []
    for ver in ('v2', 'v3'):
        f = {'pkg/utils/%s/tree/zz_verif_c18.go' % ver: 'c18/zz_verif_c18.go' if ver == 'v2' else 'c18/zz_verif_c18_v3.go'}
        for e in ('VerifC18Prune', 'VerifC18Tree'):
            hs.append(H(e, 'pkg/utils/%s/tree' % ver, f, unwind=20, opts={'params': params}, timeout_ms=120000 if quick else 900000))
    if ctx.only:
        hs = [h for h in hs if h.entry in ctx.only]
    driver.check_harnesses(ctx, hs)
    driver.write_evidence(ctx, 'model_checking', 'tree building / pruning over a 12-node universe with symbolic presence and tombstones', {'params': params}, [])
