"""C02 — changes reach a target's config and device in transaction-log order (DESIGN.md section 6, C02)."""
import driver, ts


def run(ctx):
    quick = ctx.tier == 'quick'
    cfg = dict(nt=1, nx=2, sync=False, rollback=False, faults=False, crash=False)
    depth = 24 if quick else 40
    queries = [('reach', 22, ['reach:tx1-committed']),
               ('bad', depth, ['bad:c02-committed-index-decreased']),
               ('bad', depth, ['bad:c02-applied-ahead-of-committed'])]
    res, t = ts.run_protocol(ctx, driver, '1x2', cfg, queries, contracts=['c02', 'c01'], timeout_s=600 if quick else 3000)
    ts.post_protocol(ctx, driver, res)
    driver.write_evidence(ctx, 'model_checking', 'transition relation extracted from the real reconcilers; step contracts + BMC',
                          {'config': cfg, 'bmc_depth': depth}, [])
