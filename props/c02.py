"""C02 — changes reach a target's config and device in transaction-log order (DESIGN.md section 6, C02)."""
from props import proto


def run(ctx):
    quick = ctx.tier == 'quick'
    d = 24 if quick else 40
    cfg = dict(nt=1, nx=2, sync=False, rollback=False, faults=False, crash=False)
    way = lambda a, b: {'pred': 'reach:w-' + a + b, 'depth': 18, 'seed': {'pred': 'reach:w-' + a + '-', 'depth': 20}, 'variants': 1 if quick else 3}
    bad = ['bad:c02-committed-index-decreased', 'bad:c02-applied-ahead-of-committed', 'bad:c02-merge-out-of-order',
           'bad:c02-send-before-merge', 'bad:c02-send-out-of-order', 'bad:c02-sent-after-a-later-change', 'bad:range']
    # faults on (device unavailable / refusing): the change of a proposal that is reported APPLIED has reached the device
    cfgf = dict(nt=1, nx=2, sync=False, rollback=False, faults=True, crash=False)
    way_ = lambda a, b: {'pred': 'reach:w-' + a + b, 'depth': 18, 'seed': {'pred': 'reach:w-' + a + '-', 'depth': 20}, 'variants': 1 if quick else 3}
    qf = [('reach', 26, ['reach:fault']), ('bad', d, ['bad:c02-applied-but-never-sent']), ('bad', d, ['bad:c02-send-out-of-order'])]
    # waypoints: from a reachable state in which the first transaction is committed (not applied) and the second has failed /
    # is committed, every continuation of 14 steps
    qf += [('bad', 14, ['bad:c02-applied-but-never-sent', 'bad:c02-send-out-of-order', 'bad:c02-send-before-merge', 'bad:c02-sent-after-a-later-change'], way('C', b)) for b in 'FC']
    queries = [('reach', 22, ['reach:tx1-committed']), ('reach', 26, ['reach:tx1-applied'])] + [('bad', d, [b]) for b in bad]
    # waypoint: the first transaction was rejected (its abort may still be under way), the second is committed behind it; then
    # every continuation of 12 steps: the second change is merged before it is sent, and a committed change altered its target
    queries += [('bad', 12, ['bad:c02-send-before-merge', 'bad:c02-merge-out-of-order', 'bad:c01-committed-but-target-unaltered', 'bad:c02-applied-ahead-of-committed'], {'pred': 'reach:w-FC', 'depth': 22, 'seed': {'pred': 'reach:w-F-', 'depth': 24}, 'variants': 1 if quick else 3})]
    configs = [('1x2', cfg, queries, ['c02']), ('1x2f', cfgf, qf, [])]
    if not quick:
        # three transactions: the chain contracts ("linked behind the last proposed") fail only from states with a committed
        # first and an uncommitted second transaction; a counterexample is confirmed by BMC from the initial state
        cfg3 = dict(nt=1, nx=3, sync=False, rollback=False, faults=False, crash=False)
        configs.append(('1x3', cfg3, [('reach', 30, ['reach:tx1-committed'])], ['c02'], {'confirm_depth': 34}))
    proto.run(ctx, 'C02', configs,
              'transition relation of the real v2 transaction/proposal reconcilers; ordering contracts on one step from any state '
              '+ BMC of the ghost order monitors from the initial state', {'bmc_depth': d})
