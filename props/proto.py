"""shared helper for the protocol properties (v2 transition system)"""
import sys, os
sys.path.insert(0, os.path.dirname(os.path.abspath(__file__)))
import driver, ts

ASSUMPTIONS = [
    'stores: flat harness stores implementing the contract of pkg/store/v2 (Get/Create/Update/UpdateStatus, NotFound/AlreadyExists; '
    'version conflicts cannot occur because every Reconcile is one atomic step in this model)',
    'each scheduler step runs exactly one real Reconcile(id) to completion (interleaving at Reconcile granularity)',
    'device model: election-id check, per-step fault code, deletes before updates; plugin verdict constant per (target, transaction)',
    'every transaction writes its own leaf on each of its targets (universe of NX leaves per target)',
    'state ranges: index fields <= NX+1, terms < 100 (checked unreachable-to-leave by the bad:range query)',
]
CUT_ASSUMPTION = ('content cuts for protocol-only checks: tree.BuildTree -> empty document, tree.PrunePathValues -> identity, '
                  'values.PathValuesToGnmiChange -> empty SetRequest (the plugin verdict / device answer do not depend on content in the harness)')


def run(ctx, pid, configs, explanation, bounds, assumptions=None, harness='v2'):
    """configs: list of (name, cfg, queries, contract prefixes)"""
    quick = ctx.tier == 'quick'
    import time
    budget = float(os.environ.get('VERIF_QUICK_BUDGET_S', '620'))
    for entry in configs:
        name, cfg, queries, contracts = entry[:4]
        if quick and bounds.get('transition_relations') and time.time() - ctx.t0 > budget:
            # the quick tier is meant to run on every change: on a slow / loaded machine the later (additional) configurations
            # are left to the thorough tier instead of running into the time limit; recorded, never silent
            ctx.notes.append('SKIPPED configuration %s: quick-tier time budget (%.0f s) used up after %.0f s' % (name, budget, time.time() - ctx.t0))
            driver.log('  SKIPPED configuration %s (quick-tier time budget)' % name)
            bounds.setdefault('skipped_configurations', []).append(name)
            continue
        o = entry[4] if len(entry) > 4 else {}
        res, t = ts.run_protocol(ctx, driver, name, cfg, queries, contracts=contracts, timeout_s=900 if quick else 3300,
                                 confirm_depth=o.get('confirm_depth', 24 if quick else 40), cuts=o.get('cuts', True))
        ts.post_protocol(ctx, driver, res)
        bounds.setdefault('transition_relations', []).append({'config': res['cfg'], 'state_leaves': res['leaves'], 'dag_nodes': res['size'],
                                                              'ssa_instructions': res['instrs'], 'extract_s': res['extract_s'], 'cuts': res['cuts']})
        bounds.setdefault('bmc_queries', []).extend({'config': name, 'kind': q['kind'], 'depth': q['depth'], 'preds': q['preds'], 'result': q['result'],
                                                     'solve_s': q.get('solve_s')} for q in res['queries'])
    driver.write_evidence(ctx, 'model_checking', explanation, bounds, assumptions or (ASSUMPTIONS + [CUT_ASSUMPTION]),
                          trusted=['go/ssa', 'gosmt executor', 'z3 (bit-blast + sat tactic)', 'harness stores/environment of /verif/harness/' + harness])
