"""C08 — every Set and rollback request is answered, and the answer is truthful (DESIGN.md section 6, C08)."""
import driver

NB = {'pkg/northbound/gnmi/v2/zz_verif_nbenv.go': 'nb/zz_verif_nbenv.go',
      'pkg/northbound/gnmi/v2/zz_verif_nbgen.go': 'nb/zz_verif_nbgen.go'}


def run(ctx):
    H = driver.Harness
    f = dict(NB); f['pkg/northbound/gnmi/v2/zz_verif_c08.go'] = 'c08/zz_verif_c08.go'
    evs = [1, 2, 3] if ctx.tier == 'quick' else [1, 2, 3, 4]
    hs = [H('VerifC08Set', 'pkg/northbound/gnmi/v2', f, unwind=12, opts={'params': {'events': n}}, replay_timeout=40,
            hang_labels=['handler-keeps-waiting-for-a-finished-transaction']) for n in evs]
    hs += [H('VerifC08SetEnded', 'pkg/northbound/gnmi/v2', f, unwind=12, opts={'params': {'events': n}}, replay_timeout=40) for n in evs]
    fa = {'pkg/northbound/admin/zz_verif_c08_admin.go': 'c08/zz_verif_c08_admin.go'}
    hs += [H('VerifC08Rollback', 'pkg/northbound/admin', fa, unwind=12, opts={'params': {'events': n}}, replay_timeout=40,
             hang_labels=['handler-keeps-waiting-for-a-finished-transaction']) for n in evs]
    if ctx.only:
        hs = [h for h in hs if h.entry in ctx.only]
    driver.check_harnesses(ctx, hs)
    driver.write_evidence(ctx, 'model_checking', 'the real Set and admin RollbackTransaction handlers against every symbolic suffix of a transaction lifecycle', {'events': evs}, [])
