"""C04 — a connected device converges to the stored configuration (DESIGN.md section 6, C04)."""
import driver

NB = {'pkg/northbound/gnmi/v2/zz_verif_nbenv.go': 'nb/zz_verif_nbenv.go',
      'pkg/northbound/gnmi/v2/zz_verif_nbgen.go': 'nb/zz_verif_nbgen.go'}
V2C = {'pkg/controller/v2/proposal/zz_verif_ctor.go': 'v2/ctor_prop.go',
       'pkg/controller/v2/configuration/zz_verif_ctor.go': 'v2/ctor_cfg.go',
       'pkg/store/v2/configuration/zz_verif_cfgstore.go': 'c03/zz_verif_cfgstore.go',
       'pkg/store/v2/configuration/zz_verif_cfgclient.go': 'c03/zz_verif_cfgclient_sym.go|c03/zz_verif_cfgclient_native.go'}
# the SDK's map builder resolves a primitive by its NAME (PrimitiveID{Name}); the symbolic run binds names to stub primitives
PROTO_CODEC = 'github.com/atomix/go-sdk/pkg/types.Proto[*github.com/onosproject/onos-api/go/onos/config/v2.PathValue]'
BUILDER_GET = ('(*github.com/atomix/go-sdk/pkg/primitive/map.mapBuilder[string, *github.com/onosproject/onos-api/go/onos/config/v2.PathValue]).Get'
               '[string *github.com/onosproject/onos-api/go/onos/config/v2.PathValue]')


def run(ctx):
    H = driver.Harness
    f = dict(NB); f.update(V2C)
    f['pkg/northbound/gnmi/v2/zz_verif_c03.go'] = 'c03/zz_verif_c03.go'
    f['pkg/northbound/gnmi/v2/zz_verif_c04.go'] = 'c04/zz_verif_c04.go'
    sets = [1, 2] if ctx.tier == 'quick' else [1, 2, 3]
    hs = [H('VerifC04History', 'pkg/northbound/gnmi/v2', f, unwind=16, opts={'params': {'sets': n, 'onlycombined': 0}, 'cuts': {BUILDER_GET: 'atomix-map-by-name', PROTO_CODEC: 'noop'}},
            timeout_ms=300000 if ctx.tier == 'quick' else 1800000) for n in sets]
    driver.check_harnesses(ctx, hs)
    # protocol side (transition system of the real v2 reconcilers, device unavailable / refusing at will): a proposal reported APPLIED
    # has reached the device - also when the target was unreachable while a later transaction was rejected behind it ("connected
    # later"). Waypoint: first transaction committed and not applied, second failed; then every continuation of 14 steps.
    from props import proto
    quick = ctx.tier == 'quick'
    cfgf = dict(nt=1, nx=2, sync=False, rollback=False, faults=True, crash=False)
    way = {'pred': 'reach:w-CF', 'depth': 18, 'seed': {'pred': 'reach:w-C-', 'depth': 20}, 'variants': 1 if quick else 3}
    q = [('reach', 28, ['reach:tx1-applied']), ('bad', 22 if quick else 36, ['bad:c02-applied-but-never-sent']),
         ('bad', 14, ['bad:c02-applied-but-never-sent', 'bad:c02-send-before-merge'], way)]
    proto.run(ctx, 'C04', [('1x2f', cfgf, q, [])],
              'data path Set -> commit -> apply -> device, restart + re-push by the configuration controller; transition system: a proposal '
              'reported APPLIED has reached the device', {'sets': sets})
