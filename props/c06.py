"""C06 — rolling back the latest change restores exactly the previous state (DESIGN.md section 6, C06)."""
import driver
from props import proto, c04


def run(ctx):
    quick = ctx.tier == 'quick'
    # (a) data path: histories of Sets, then the last change is rolled back through the real proposal phases
    H = driver.Harness
    f = dict(c04.NB); f.update(c04.V2C)
    f['pkg/northbound/gnmi/v2/zz_verif_c03.go'] = 'c03/zz_verif_c03.go'
    f['pkg/northbound/gnmi/v2/zz_verif_c04.go'] = 'c04/zz_verif_c04.go'
    f['pkg/northbound/gnmi/v2/zz_verif_c06.go'] = 'c06/zz_verif_c06.go'
    cuts = {c04.BUILDER_GET: 'atomix-map-by-name', c04.PROTO_CODEC: 'noop'}
    hs = [H('VerifC06History', 'pkg/northbound/gnmi/v2', f, unwind=16, opts={'params': {'sets': n, 'again': 1}, 'cuts': cuts, 'maporder': mo},
            timeout_ms=300000 if quick else 1800000, replay_attempts=16)
          for n, mo in ([(1, 0), (1, 1), (2, 0)] if quick else [(1, 0), (1, 1), (2, 0), (2, 1), (3, 0)])]
    # chain: Set, Set, rollback, Set, rollback, rollback of the first Set
    hs.append(H('VerifC06History', 'pkg/northbound/gnmi/v2', f, unwind=16, opts={'params': {'sets': 2, 'again': 0, 'chain': 1}, 'cuts': cuts, 'maporder': 0},
                timeout_ms=300000 if quick else 1800000, replay_attempts=16))
    if ctx.only:
        hs = [h for h in hs if h.entry in ctx.only]
    driver.check_harnesses(ctx, hs)
    if ctx.only:
        driver.write_evidence(ctx, 'model_checking', 'partial run', {}, [])
        return
    d = 30 if quick else 42
    cfg = dict(nt=1, nx=2, sync=False, rollback=True, faults=False, crash=False)
    bad = ['bad:c06-rolled-back-leaf-still-readable', 'bad:c06-inadmissible-rollback-accepted', 'bad:c06-rolled-back-leaf-still-on-device']
    d = 26 if quick else 36
    seed = {'pred': 'reach:tx1-applied-alone', 'depth': 28}
    ds = 22 if quick else 30
    queries = [('reach', 24, ['reach:rollback-refused'])] + [('bad', d, [b]) for b in bad]
    if not quick:
        queries.append(('reach', 36, ['reach:rollback-committed']))   # (quick: the waypoint query below is the witness)
    # waypoint: from a reachable state in which the first change has been applied, all continuations of ds steps
    queries += [('bad', ds, [b], seed) for b in bad] + [('reach', ds, ['reach:rollback-committed'], seed)]
    configs = [('1x2r', cfg, queries, ['c06', 'c01-abort'], {'cuts': False})]
    if not quick:
        cfg3 = dict(nt=1, nx=3, sync=False, rollback=True, faults=False, crash=False)
        configs.append(('1x3r', cfg3, [('bad', 40, [b]) for b in bad[:2]], [], {'cuts': False}))
    proto.run(ctx, 'C06', configs,
              'rollback requests for any index (missing, a rollback, an older change, the latest change) appended anywhere in a '
              'history, real reconcilers incl. the real tree / southbound conversion code: BMC "a committed rollback names the most '
              'recent committed change of its targets" and "after it the rolled back leaf is neither readable nor on the device"',
              {'bmc_depth': d})
